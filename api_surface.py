#!/usr/bin/env python3
"""Public API surface of the crates under observation, as far as a line scan can see it.

A runtime monitor can only observe calls it knows how to make. The harness is compiled against
the API as it was when the monitors were written (plus the trait impls it probes for: Clone,
IvState, seek, ...). If the tree under test offers a public function, type or trait impl that is
not in the committed snapshot (api_surface.json), no monitor drives it, and the honest verdict for
the properties anchored in that file is "inconclusive", not "held".

  ./api_surface.py snapshot     rewrite api_surface.json from /repo (done once, by hand)
  ./api_surface.py diff         print additions relative to the snapshot
"""
import json, os, re, sys

REPO = "/repo"
HERE = os.path.dirname(os.path.abspath(__file__))
SNAP = os.path.join(HERE, "api_surface.json")
CRATES = ["cbc", "pcbc", "ige", "cfb-mode", "cfb8", "ofb", "ctr", "cts", "belt-ctr"]

PUB_FN = re.compile(r"^\s*pub\s+(?:const\s+|unsafe\s+)*fn\s+(\w+)")
PUB_TY = re.compile(r"^\s*pub\s+(struct|enum|trait|type|const|static|mod|use)\s+([\w:{}, *]+)")
IMPL = re.compile(r"^\s*(?:unsafe\s+)?impl\b(.*)$")
DERIVE = re.compile(r"^\s*#\[derive\((.*?)\)\]")
TYDEF = re.compile(r"^\s*(?:pub(?:\([^)]*\))?\s+)?(?:struct|enum|union)\s+(\w+)")


def norm_impl(head):
    """'fmt::Debug for Encryptor' -> 'Debug for Encryptor' (a derive and a hand-written impl are the same surface)"""
    if " for " not in head:
        return head
    tr, ty = head.split(" for ", 1)
    return "%s for %s" % (tr.strip().split("::")[-1], ty.strip().split("::")[-1])


def strip_generics(s):
    out, depth = [], 0
    for ch in s:
        if ch == "<":
            depth += 1
        elif ch == ">":
            depth = max(0, depth - 1)
        elif depth == 0:
            out.append(ch)
    return "".join(out)


def scan_file(path):
    items = []
    try:
        lines = open(path, encoding="utf-8", errors="replace").read().splitlines()
    except OSError:
        return items
    cur_impl = None
    in_test = False
    derives = []
    for i, ln in enumerate(lines):
        if "#[cfg(test)]" in ln:
            in_test = True
        if in_test:
            continue
        code = ln.split("//")[0]
        m = DERIVE.match(code)
        if m:
            derives += [d.strip().split("::")[-1] for d in m.group(1).split(",") if d.strip()]
            continue
        m = TYDEF.match(code)
        if m and derives:
            for d in derives:
                items.append("impl %s for %s" % (d, m.group(1)))
        if m:
            derives = []
        m = IMPL.match(code)
        if m:
            # join continuation lines up to the opening brace
            head = m.group(1)
            j = i
            while "{" not in head and j + 1 < len(lines) and j < i + 8:
                j += 1
                head += " " + lines[j].split("//")[0]
            head = head.split("{")[0].split(" where ")[0]
            head = " ".join(strip_generics(head).split())
            cur_impl = head.split(" for ", 1)[1].split("::")[-1].strip() if " for " in head else head
            if " for " in head:
                items.append("impl " + norm_impl(head))
            continue
        m = PUB_FN.match(code)
        if m:
            items.append("fn %s%s" % ((cur_impl + "::") if cur_impl and ln.startswith((" ", "\t")) else "", m.group(1)))
            continue
        m = PUB_TY.match(code)
        if m:
            items.append("%s %s" % (m.group(1), " ".join(m.group(2).split()).rstrip("{ ").strip()))
    return items


def surface():
    out = {}
    for c in CRATES:
        base = os.path.join(REPO, c, "src")
        for root, _, files in os.walk(base):
            for f in sorted(files):
                if f.endswith(".rs"):
                    p = os.path.join(root, f)
                    rel = os.path.relpath(p, REPO)
                    out[rel] = sorted(set(scan_file(p)))
    return out


def additions():
    """{file: [items not in the snapshot]}; a file that is new counts with all its items"""
    try:
        snap = json.load(open(SNAP))
    except (OSError, ValueError):
        return None
    cur = surface()
    add = {}
    for f, items in cur.items():
        old = set(snap.get(f, []))
        new = [x for x in items if x not in old]
        if new:
            add[f] = new
    return add


if __name__ == "__main__":
    cmd = sys.argv[1] if len(sys.argv) > 1 else "diff"
    if cmd == "snapshot":
        json.dump(surface(), open(SNAP, "w"), indent=1, sort_keys=True)
        print("wrote", SNAP)
    else:
        a = additions()
        print(json.dumps(a, indent=1))
