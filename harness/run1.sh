#!/bin/bash
# dev helper: run one property and summarize
B=/verif/target/checked/release/bmv
p=$1; shift
$B run --prop $p --tier ${TIER:-quick} --seed ${SEED:-1} --out /tmp/r_$p.json "$@"
python3 - <<PY
import json;r=json.load(open('/tmp/r_$p.json'))
print({k:r.get(k) for k in ['evaluations','distinct_nontrivial','api_calls','cipher_events','violations_total','thresholds_unmet','harness_errors','wall_s','watchdog_fired']})
sigs={}
for v in r['violations']:
    sigs.setdefault(v['signature'],[]).append(v)
for s,vs in sigs.items(): print(len(vs),s,'|',vs[0]['cfg'],'|',vs[0]['detail'][:400])
PY
