//! "huge" slice (thorough tier only): single calls of 2^32 + 5 bytes. Lengths that do not
//! survive a cast to u32 are the one class of input the randomized workloads cannot afford; this
//! slice drives a handful of them through the real code with AES-128 (AES-NI, unspied, for
//! speed) and compares with the same object type fed in 1 MiB pieces.
//!
//!   C13: every CTS variant accepts the length (Ok, no panic) in both directions
//!   C01: ... and decrypt(encrypt(m)) = m; buffered CFB round trip
//!   C14: buffered CFB in one call == buffered CFB in pieces == block-level CFB
//!   C08: byte-stream ciphers (CTR) and buffered CFB: one call == pieces

use bmv_core::re::aes::Aes128;
use bmv_core::re::cipher::{Array, BlockModeEncrypt, InnerIvInit, KeyInit, KeyIvInit, StreamCipher, crypto_common::InnerInit};
use bmv_core::re::{cfb_mode, ctr, cts};
use bmv_core::util::{J, guard};
use std::time::Instant;

const LEN: usize = (1usize << 32) + 5;
const PIECE: usize = 1 << 20;

fn pat(i: usize) -> u8 {
    ((i.wrapping_mul(0x9E37_79B1)) >> 13) as u8 ^ (i >> 21) as u8
}
fn fill(buf: &mut [u8], base: usize) {
    for (k, b) in buf.iter_mut().enumerate() {
        *b = pat(base + k);
    }
}
fn is_pattern(buf: &[u8]) -> Option<usize> {
    buf.iter().enumerate().position(|(i, &b)| b != pat(i))
}

struct Out {
    checks: Vec<J>,
    viols: Vec<J>,
    prop: String,
}
impl Out {
    fn check(&mut self, name: &str, secs: f64, res: Result<(), String>) {
        let ok = res.is_ok();
        self.checks.push(J::obj().set("name", J::s(name)).set("bytes", J::i(LEN as i128)).set("secs", J::Num(secs)).set("ok", J::Bool(ok)));
        if let Err(e) = res {
            self.viols.push(
                J::obj()
                    .set("property", J::s(&self.prop))
                    .set("signature", J::s(format!("{}/huge/{}", self.prop, name)))
                    .set("detail", J::s(format!("single call of 2^32+5 bytes: {}", e)))
                    .set("cfg", J::s("aes128-huge"))
                    .set("case_seed", J::s("0")),
            );
        }
    }
}

const KEY: [u8; 16] = [0x42; 16];
const IV: [u8; 16] = [0x24; 16];

macro_rules! cts_variant {
    ($out:expr, $buf:expr, $name:expr, $mk:expr, $want_rt:expr) => {{
        fill($buf, 0);
        let t = Instant::now();
        let r = guard(|| cts::Encrypt::encrypt($mk, $buf));
        let res = match r {
            Err(p) => Err(format!("encrypt panicked: {}", p.0)),
            Ok(Err(_)) => Err("encrypt rejected a message of 4294967301 bytes (>= one block)".to_string()),
            Ok(Ok(())) => Ok(()),
        };
        let enc_ok = res.is_ok();
        $out.check(&format!("cts-gate/{}/enc", $name), t.elapsed().as_secs_f64(), res);
        if enc_ok {
            let t = Instant::now();
            let r = guard(|| cts::Decrypt::decrypt($mk, $buf));
            let res = match r {
                Err(p) => Err(format!("decrypt panicked: {}", p.0)),
                Ok(Err(_)) => Err("decrypt rejected a ciphertext of 4294967301 bytes".to_string()),
                Ok(Ok(())) => {
                    if $want_rt {
                        match is_pattern($buf) {
                            None => Ok(()),
                            Some(i) => Err(format!("decrypt(encrypt(m)) differs from m at byte {}", i)),
                        }
                    } else {
                        Ok(())
                    }
                }
            };
            $out.check(&format!("cts-gate/{}/dec", $name), t.elapsed().as_secs_f64(), res);
        }
    }};
}

pub fn run(prop: &str) -> J {
    let t0 = Instant::now();
    let mut out = Out { checks: Vec::new(), viols: Vec::new(), prop: prop.to_string() };
    let mut buf = vec![0u8; LEN];
    let key = Array::from(KEY);
    let iv = Array::from(IV);

    if prop == "C13" || prop == "C01" {
        let rt = prop == "C01";
        let variants: &[&str] = if prop == "C01" { &["cbc_cs3", "ecb_cs1"] } else { &["cbc_cs1", "cbc_cs2", "cbc_cs3", "ecb_cs1", "ecb_cs2", "ecb_cs3"] };
        for v in variants {
            match *v {
                "cbc_cs1" => cts_variant!(out, &mut buf, v, cts::CbcCs1::<Aes128>::inner_iv_init(Aes128::new(&key), &iv), rt),
                "cbc_cs2" => cts_variant!(out, &mut buf, v, cts::CbcCs2::<Aes128>::inner_iv_init(Aes128::new(&key), &iv), rt),
                "cbc_cs3" => cts_variant!(out, &mut buf, v, cts::CbcCs3::<Aes128>::inner_iv_init(Aes128::new(&key), &iv), rt),
                "ecb_cs1" => cts_variant!(out, &mut buf, v, cts::EcbCs1::<Aes128>::inner_init(Aes128::new(&key)), rt),
                "ecb_cs2" => cts_variant!(out, &mut buf, v, cts::EcbCs2::<Aes128>::inner_init(Aes128::new(&key)), rt),
                _ => cts_variant!(out, &mut buf, v, cts::EcbCs3::<Aes128>::inner_init(Aes128::new(&key)), rt),
            }
        }
    }

    if prop == "C14" || prop == "C08" || prop == "C01" {
        // buffered CFB: one call ...
        fill(&mut buf, 0);
        let t = Instant::now();
        let r = guard(|| {
            let mut e = cfb_mode::BufEncryptor::<Aes128>::new(&key, &iv);
            e.encrypt(&mut buf);
        });
        let mut res = r.map_err(|p| format!("BufEncryptor::encrypt panicked: {}", p.0));
        if res.is_ok() {
            // ... vs the same type fed in 1 MiB pieces, and vs block-level CFB on the whole blocks
            let mut pe = cfb_mode::BufEncryptor::<Aes128>::new(&key, &iv);
            let mut be = cfb_mode::Encryptor::<Aes128>::new(&key, &iv);
            let mut piece = vec![0u8; PIECE];
            let mut piece2 = vec![0u8; PIECE];
            let mut off = 0;
            while off < LEN && res.is_ok() {
                let n = PIECE.min(LEN - off);
                fill(&mut piece[..n], off);
                piece2[..n].copy_from_slice(&piece[..n]);
                pe.encrypt(&mut piece[..n]);
                if piece[..n] != buf[off..off + n] {
                    let i = (0..n).find(|&i| piece[i] != buf[off + i]).unwrap();
                    res = Err(format!("buffered CFB in one call differs from buffered CFB in 1 MiB pieces at byte {}", off + i));
                    break;
                }
                if prop == "C14" && n % 16 == 0 {
                    let (blocks, _) = Array::<u8, bmv_core::re::cipher::consts::U16>::slice_as_chunks_mut(&mut piece2[..n]);
                    be.encrypt_blocks(blocks);
                    if piece2[..n] != buf[off..off + n] {
                        let i = (0..n).find(|&i| piece2[i] != buf[off + i]).unwrap();
                        res = Err(format!("buffered CFB in one call differs from block-level CFB at byte {}", off + i));
                        break;
                    }
                }
                off += n;
            }
        }
        let enc_ok = res.is_ok();
        out.check("cfb-buf/enc/one-call-vs-pieces", t.elapsed().as_secs_f64(), res);
        if enc_ok && (prop == "C01" || prop == "C08") {
            let t = Instant::now();
            let r = guard(|| {
                let mut d = cfb_mode::BufDecryptor::<Aes128>::new(&key, &iv);
                d.decrypt(&mut buf);
            });
            let res = match r {
                Err(p) => Err(format!("BufDecryptor::decrypt panicked: {}", p.0)),
                Ok(()) => match is_pattern(&buf) {
                    None => Ok(()),
                    Some(i) => Err(format!("buffered CFB decrypt(encrypt(m)) differs from m at byte {}", i)),
                },
            };
            out.check("cfb-buf/dec/one-call-roundtrip", t.elapsed().as_secs_f64(), res);
        }
    }

    if prop == "C08" {
        // CTR byte stream: one call vs pieces
        fill(&mut buf, 0);
        let t = Instant::now();
        let r = guard(|| {
            let mut c = ctr::Ctr128BE::<Aes128>::new(&key, &iv);
            c.try_apply_keystream(&mut buf).is_ok()
        });
        let mut res = match r {
            Err(p) => Err(format!("Ctr128BE::try_apply_keystream panicked: {}", p.0)),
            Ok(false) => Err("Ctr128BE refused 2^32+5 bytes".to_string()),
            Ok(true) => Ok(()),
        };
        if res.is_ok() {
            let mut c = ctr::Ctr128BE::<Aes128>::new(&key, &iv);
            let mut piece = vec![0u8; PIECE + 7];
            let mut off = 0;
            while off < LEN {
                let n = (PIECE + 7).min(LEN - off);
                fill(&mut piece[..n], off);
                c.apply_keystream(&mut piece[..n]);
                if piece[..n] != buf[off..off + n] {
                    let i = (0..n).find(|&i| piece[i] != buf[off + i]).unwrap();
                    res = Err(format!("CTR in one call differs from CTR in pieces at byte {}", off + i));
                    break;
                }
                off += n;
            }
        }
        out.check("ctr128be/one-call-vs-pieces", t.elapsed().as_secs_f64(), res);
    }

    J::obj()
        .set("property", J::s(prop))
        .set("slice", J::s("huge (2^32+5 bytes per call, AES-128)"))
        .set("checks", J::Arr(out.checks))
        .set("violations", J::Arr(out.viols))
        .set("wall_s", J::Num(t0.elapsed().as_secs_f64()))
}
