//! C13 — bad lengths are rejected without side effects; no operation panics.
//! Contract table + panic monitor over the other monitors' workloads.

use super::common::*;
use crate::ctx::{ALL_FILLS, Canary, Ctx};
use crate::wl;
use bmv_core::subj::*;
use bmv_core::util::{self, J, PanicInfo, guard, hex_short};

pub fn run(ctx: &mut Ctx) {
    match ctx.rng.below(20) {
        0..=2 => cts_short(ctx),
        3..=5 => unequal_b2b(ctx),
        6..=7 => padded_dec_nonmultiple(ctx),
        8..=10 => ctor_lengths(ctx),
        11 => padded_misc(ctx),
        _ => foreign(ctx),
    }
}

/// classify a recorded panic: harness-internal ones are harness errors, not verdicts
fn is_harness_panic(msg: &str) -> bool {
    if msg.starts_with("spy:") {
        return false;
    }
    if msg.starts_with("harness:") {
        return true;
    }
    match msg.rfind(" @ ") {
        Some(i) => {
            let loc = &msg[i + 3..];
            loc.starts_with("bmv/") || loc.starts_with("core/src") || loc.contains("/verif/harness/")
        }
        None => false,
    }
}

/// run another property's workload; report only panics out of the code under test
fn foreign(ctx: &mut Ctx) {
    let which = ctx.rng.below(12);
    let name = ["C01", "C03", "C05", "C07", "C08", "C09", "C10", "C11", "C12", "C14", "C15", "C16"][which];
    ctx.panic_only = true;
    let _ = util::panic_log_take();
    let before = ctx.st.violations_total;
    match which {
        0 => super::c01::run(ctx),
        1 => super::c03::run(ctx),
        2 => super::c05::run(ctx),
        3 => super::c07::run(ctx),
        4 => super::c08::run(ctx),
        5 => super::c09::run(ctx),
        6 => super::c10::run(ctx),
        7 => super::c11::run(ctx),
        8 => super::c12::run(ctx),
        9 => super::c14::run(ctx),
        10 => super::c15::run(ctx),
        _ => super::c16::run(ctx),
    }
    let panics = util::panic_log_take();
    ctx.st.count(&format!("panic-monitor.workload.{}", name));
    ctx.st.count_n("panic-monitor.histories", 1);
    if ctx.st.violations_total == before {
        for m in panics {
            if is_harness_panic(&m) {
                ctx.st.harness_errors.push(format!("panic inside the harness during a {} workload: {}", name, m));
            } else {
                let site = util::panic_site(&PanicInfo(m.clone()));
                ctx.violation(&format!("C13/panic/{}-workload", name), format!("a public operation panicked: {}", site));
                break;
            }
        }
    }
    // do not let the foreign monitor's cells count as C13 coverage
    ctx.nontrivial = true;
    ctx.cell(format!("panic-monitor|{}|{}", name, ctx.cfg.name));
}

/// CTS: L < b -> Err and nothing modified; L >= b -> Ok
fn cts_short(ctx: &mut Ctx) {
    if ctx.cfg.cts.is_empty() {
        return;
    }
    let d = ctx.rng.pick(&ctx.cfg.cts).clone();
    let dir = *ctx.rng.pick(&[Direction::Enc, Direction::Dec]);
    let form = *ctx.rng.pick(&FORMS3);
    let name = format!("{}/{}", d.var.name(), dir.name());
    ctx.subject(&name);
    let b = ctx.cfg.bs;
    let len = match ctx.rng.below(8) {
        0 => 0,
        1 => b.saturating_sub(1),
        2 => 1.min(b.saturating_sub(1)),
        3 => b,
        4 => b + 1,
        5 => 2 * b,
        _ => ctx.rng.range(0, 2 * b),
    };
    let (iv, _) = mode_iv(ctx, b);
    let (data, _) = mode_data(ctx, len);
    let fill = *ctx.rng.pick(&ALL_FILLS);
    let pre = fill.make(&mut ctx.rng, &data, len);
    ctx.note("iv", J::s(hex_short(&iv)));
    ctx.note("len", J::i(len as i64));
    ctx.note("form", J::s(form.name()));
    let key = ctx.key.clone();
    let o = match guard(|| (d.mk)(Ctor::New, &key, &iv)) {
        Ok(Ok(o)) => o,
        Ok(Err(())) => return ctx.violation(&format!("C13/ctor-err/{}", name), "right-length key/IV rejected".into()),
        Err(p) => return ctx.panic_violation(&format!("{}/ctor", name), &p),
    };
    let inp = Canary::from(&data);
    let mut out = Canary::from(&pre);
    ctx.st.api_calls += 1;
    let r = match guard(|| o.run(dir, form, inp.data(), out.data_mut())) {
        Ok(r) => r,
        Err(p) => return ctx.panic_violation(&format!("{}/L={}", name, if len < b { "short" } else { "ok" }), &p),
    };
    let want_ok = len >= b;
    if r != want_ok {
        return ctx.violation(
            &format!("C13/cts-gate/{}/{}", if r { "accepted-short" } else { "rejected-long-enough" }, name),
            format!("L = {} with block size {}: returned {}", len, b, if r { "Ok" } else { "Err" }),
        );
    }
    if !r {
        let expect: &[u8] = if form == Form::InPlace { &data } else { &pre };
        if out.data() != expect || inp.data() != &data[..] || !out.intact() || !inp.intact() {
            return ctx.violation(&format!("C13/rejected-but-modified/{}", name), format!("a rejected {}-byte call ({}) modified the caller's buffers", len, form.name()));
        }
        ctx.st.count(&format!("cts-short-rejected.{}", d.var.name()));
    } else {
        ctx.st.count(&format!("cts-accepted.{}", d.var.name()));
    }
    ctx.nontrivial = true;
    ctx.cell(format!("cts-gate|{}|{}|{}|L{}b", name, ctx.cfg.name, form.name(), if len < b { "<" } else if len == b { "=" } else { ">" }));
}

/// every equal-length b2b API with unequal lengths -> Err, nothing modified
fn unequal_b2b(ctx: &mut Ctx) {
    let b = ctx.cfg.bs;
    let key = ctx.key.clone();
    let which = ctx.rng.below(4);
    // (input length, output length), unequal
    let pick_lens = |ctx: &mut Ctx, unit: usize| -> (usize, usize) {
        let n = ctx.rng.range(0, 5) * unit;
        let m = match ctx.rng.below(5) {
            0 => n + unit,
            1 => n.saturating_sub(unit),
            2 => 0,
            3 => 2 * n + unit,
            _ => n + unit * ctx.rng.range(1, 3),
        };
        if m == n { (n, n + unit) } else { (n, m) }
    };
    match which {
        0 => {
            if ctx.cfg.blk.is_empty() {
                return;
            }
            let d = ctx.rng.pick(&ctx.cfg.blk).clone();
            let name = format!("{}/blocks_b2b", subj_name(&d));
            ctx.subject(&name);
            let (li, lo) = pick_lens(ctx, d.bs);
            let (iv, _) = mode_iv(ctx, d.iv_len);
            let (data, _) = mode_data(ctx, li);
            let pre = ctx.rng.bytes(lo);
            let Ok(mut o) = mk_blk(ctx, &d, Ctor::New, &iv) else { return };
            let st0 = guard(|| o.iv_state()).ok().flatten();
            let inp = Canary::from(&data);
            let mut out = Canary::from(&pre);
            ctx.note("lens", J::s(format!("{}->{}", li, lo)));
            ctx.st.api_calls += 1;
            match guard(|| o.blocks_b2b_raw(inp.data(), out.data_mut())) {
                Err(p) => return ctx.panic_violation(&name, &p),
                Ok(true) => return ctx.violation(&format!("C13/unequal-accepted/{}", name), format!("{} input bytes, {} output bytes: Ok", li, lo)),
                Ok(false) => {}
            }
            if out.data() != &pre[..] || inp.data() != &data[..] || !out.intact() || !inp.intact() {
                return ctx.violation(&format!("C13/rejected-but-modified/{}", name), "a rejected call modified the caller's buffers".into());
            }
            let st1 = guard(|| o.iv_state()).ok().flatten();
            if st0 != st1 {
                ctx.st.count("note.state-changed-by-rejected-call");
            }
            ctx.st.count("unequal-rejected.blocks_b2b");
            ctx.cell(format!("unequal|{}|{}", name, ctx.cfg.name));
        }
        1 => {
            let fam = *ctx.rng.pick(&[Family::Cfb, Family::Cfb8]);
            let dir = *ctx.rng.pick(&[Direction::Enc, Direction::Dec]);
            let Some(d) = ctx.cfg.blk(fam, dir).cloned() else { return };
            let name = format!("{}/oneshot_b2b", subj_name(&d));
            ctx.subject(&name);
            let (li, lo) = pick_lens(ctx, ctx.rng.clone().range(1, b));
            let (iv, _) = mode_iv(ctx, d.iv_len);
            let (data, _) = mode_data(ctx, li);
            let pre = ctx.rng.bytes(lo);
            let Ok(o) = mk_blk(ctx, &d, Ctor::New, &iv) else { return };
            let inp = Canary::from(&data);
            let mut out = Canary::from(&pre);
            let form = *ctx.rng.pick(&[Form::B2b, Form::Inout]);
            ctx.note("lens", J::s(format!("{}->{}", li, lo)));
            ctx.st.api_calls += 1;
            match guard(|| o.oneshot(form, inp.data(), out.data_mut())) {
                Err(p) => return ctx.panic_violation(&name, &p),
                Ok(Some(true)) => return ctx.violation(&format!("C13/unequal-accepted/{}", name), format!("{} -> {} bytes: Ok", li, lo)),
                Ok(_) => {}
            }
            if out.data() != &pre[..] || inp.data() != &data[..] || !out.intact() {
                return ctx.violation(&format!("C13/rejected-but-modified/{}", name), "a rejected call modified the caller's buffers".into());
            }
            ctx.st.count("unequal-rejected.oneshot_b2b");
            ctx.cell(format!("unequal|{}|{}", name, ctx.cfg.name));
        }
        2 => {
            if ctx.cfg.streams.is_empty() {
                return;
            }
            let d = ctx.rng.pick(&ctx.cfg.streams).clone();
            let name = format!("{}/apply_keystream_b2b", d.flavor.name());
            ctx.subject(&name);
            let (li, lo) = pick_lens(ctx, ctx.rng.clone().range(1, b));
            let (iv, _) = stream_iv(ctx, d.flavor, b);
            let (data, _) = mode_data(ctx, li);
            let pre = ctx.rng.bytes(lo);
            let Ok(Ok(mut o)) = guard(|| (d.mk)(Ctor::New, &key, &iv)) else { return };
            // somewhere inside a block
            let warm = ctx.rng.below(2 * b);
            let mut w = vec![0u8; warm];
            let _ = guard(|| o.try_apply(Form::InPlace, &vec![0u8; warm], &mut w));
            let pos0 = guard(|| o.try_current_pos(SeekTy::U128)).ok().flatten();
            let inp = Canary::from(&data);
            let mut out = Canary::from(&pre);
            let form = *ctx.rng.pick(&[Form::B2b, Form::Inout]);
            ctx.note("lens", J::s(format!("{}->{}", li, lo)));
            ctx.st.api_calls += 1;
            match guard(|| o.try_apply(form, inp.data(), out.data_mut())) {
                Err(p) => return ctx.panic_violation(&name, &p),
                Ok(true) => return ctx.violation(&format!("C13/unequal-accepted/{}", name), format!("{} -> {} bytes: Ok", li, lo)),
                Ok(false) => {}
            }
            if out.data() != &pre[..] || inp.data() != &data[..] || !out.intact() {
                return ctx.violation(&format!("C13/rejected-but-modified/{}", name), "a rejected call modified the caller's buffers".into());
            }
            let pos1 = guard(|| o.try_current_pos(SeekTy::U128)).ok().flatten();
            if pos0 != pos1 {
                ctx.st.count("note.position-changed-by-rejected-call");
            }
            ctx.st.count("unequal-rejected.apply_keystream_b2b");
            ctx.cell(format!("unequal|{}|{}", name, ctx.cfg.name));
        }
        _ => {
            if ctx.cfg.cts.is_empty() {
                return;
            }
            let d = ctx.rng.pick(&ctx.cfg.cts).clone();
            let dir = *ctx.rng.pick(&[Direction::Enc, Direction::Dec]);
            let name = format!("{}/{}/b2b", d.var.name(), dir.name());
            ctx.subject(&name);
            // both at least one block, but unequal
            let li = b + ctx.rng.below(2 * b);
            let lo = if ctx.rng.coin() { li + ctx.rng.range(1, b) } else { (li - ctx.rng.range(1, li.min(b))).max(0) };
            let (iv, _) = mode_iv(ctx, b);
            let (data, _) = mode_data(ctx, li);
            let pre = ctx.rng.bytes(lo);
            let Ok(Ok(o)) = guard(|| (d.mk)(Ctor::New, &key, &iv)) else { return };
            let inp = Canary::from(&data);
            let mut out = Canary::from(&pre);
            ctx.note("lens", J::s(format!("{}->{}", li, lo)));
            ctx.st.api_calls += 1;
            match guard(|| o.run(dir, Form::B2b, inp.data(), out.data_mut())) {
                Err(p) => return ctx.panic_violation(&name, &p),
                Ok(true) => return ctx.violation(&format!("C13/unequal-accepted/{}", name), format!("{} -> {} bytes: Ok", li, lo)),
                Ok(false) => {}
            }
            if out.data() != &pre[..] || inp.data() != &data[..] || !out.intact() {
                return ctx.violation(&format!("C13/rejected-but-modified/{}", name), "a rejected call modified the caller's buffers".into());
            }
            ctx.st.count("unequal-rejected.cts_b2b");
            ctx.cell(format!("unequal|{}|{}", name, ctx.cfg.name));
        }
    }
    ctx.nontrivial = true;
}

/// decrypt_padded* with L mod b != 0 -> Err, nothing modified
fn padded_dec_nonmultiple(ctx: &mut Ctx) {
    let decs: Vec<BlkDesc> = ctx.cfg.blk.iter().filter(|d| d.dir == Direction::Dec && d.bs > 1).cloned().collect();
    if decs.is_empty() {
        return;
    }
    let d = ctx.rng.pick(&decs).clone();
    let pad = *ctx.rng.pick(&ALL_PADS);
    let form = *ctx.rng.pick(&FORMS4);
    let name = format!("{}/decrypt_padded", subj_name(&d));
    ctx.subject(&name);
    let b = d.bs;
    let len = ctx.rng.range(0, 4) * b + ctx.rng.range(1, b - 1);
    let (iv, _) = mode_iv(ctx, d.iv_len);
    let (data, _) = mode_data(ctx, len);
    let Ok(o) = mk_blk(ctx, &d, Ctor::New, &iv) else { return };
    let olen = match form {
        Form::Inout => len,
        _ => len + ctx.rng.below(b),
    };
    let pre = ctx.rng.bytes(olen);
    let inp = Canary::from(&data);
    let mut out = Canary::from(&pre);
    ctx.note("len", J::i(len as i64));
    ctx.note("form", J::s(form.name()));
    ctx.note("padding", J::s(pad.name()));
    ctx.st.api_calls += 1;
    match guard(|| o.padded(pad, form, inp.data(), out.data_mut())) {
        Err(p) => return ctx.panic_violation(&name, &p),
        Ok(Ok(_)) => return ctx.violation(&format!("C13/nonmultiple-accepted/{}", name), format!("{} bytes (block size {}) accepted by padded decryption", len, b)),
        Ok(Err(())) => {}
    }
    // in-place: the adapter copied the ciphertext into the buffer first
    let mut expect = pre.clone();
    if form == Form::InPlace {
        expect[..len].copy_from_slice(&data);
    }
    if out.data() != &expect[..] || inp.data() != &data[..] || !out.intact() || !inp.intact() {
        return ctx.violation(&format!("C13/rejected-but-modified/{}", name), format!("a rejected padded decryption ({}) modified the caller's buffers", form.name()));
    }
    ctx.st.count(&format!("nonmultiple-rejected.{}", d.fam.name()));
    ctx.nontrivial = true;
    ctx.cell(format!("padded-dec|{}|{}|{}|{}", name, ctx.cfg.name, form.name(), pad.name()));
}

/// not in the contract's list (nothing asserted about buffers): too-small outputs for padded
/// encryption, malformed padding on decryption, zero-length everything -- panic monitor only
fn padded_misc(ctx: &mut Ctx) {
    if ctx.cfg.blk.is_empty() {
        return;
    }
    let d = ctx.rng.pick(&ctx.cfg.blk).clone();
    let pad = *ctx.rng.pick(&ALL_PADS);
    let form = *ctx.rng.pick(&FORMS4);
    let name = format!("{}/padded-misc", subj_name(&d));
    ctx.subject(&name);
    let b = d.bs;
    let len = ctx.rng.range(0, 3 * b);
    let (iv, _) = mode_iv(ctx, d.iv_len);
    let (data, _) = mode_data(ctx, len);
    let Ok(o) = mk_blk(ctx, &d, Ctor::New, &iv) else { return };
    let olen = if d.dir == Direction::Dec && matches!(form, Form::InPlace) { len.max(ctx.rng.range(0, 4 * b)) } else { ctx.rng.range(0, 4 * b) };
    let olen = if d.dir == Direction::Dec && form == Form::InPlace { olen.max(len) } else { olen };
    let mut out = Canary::filled(olen, 0x11);
    ctx.note("len", J::i(len as i64));
    ctx.note("out_len", J::i(olen as i64));
    ctx.note("form", J::s(form.name()));
    ctx.note("padding", J::s(pad.name()));
    ctx.st.api_calls += 1;
    match guard(|| o.padded(pad, form, &data, out.data_mut())) {
        Err(p) => {
            if p.0.starts_with("harness:") {
                return;
            }
            // structural signature of the one undocumented panic of the provided method
            // `encrypt_padded_vec`: NoPadding cannot pad a partial block and the method unwraps
            if d.dir == Direction::Enc && form == Form::Vec && pad == Pad::NoPadding && len % b != 0 && p.0.contains("enough space for encrypting is allocated") {
                return ctx.violation(
                    "C13/panic/encrypt_padded_vec<NoPadding>/length-not-multiple-of-block",
                    format!("{}: encrypt_padded_vec::<NoPadding>() of a {}-byte message (block size {}) panicked: {}", name, len, b, bmv_core::util::panic_site(&p)),
                );
            }
            return ctx.panic_violation(&name, &p);
        }
        Ok(_) => {}
    }
    if !out.intact() {
        return ctx.violation(&format!("C13/canary/{}", name), "write outside the output buffer".into());
    }
    ctx.st.count("padded-misc");
    ctx.nontrivial = true;
    ctx.cell(format!("padded-misc|{}|{}|{}", name, ctx.cfg.name, form.name()));
}

/// construction from slices: wrong key or IV length -> Err; right lengths -> Ok
fn ctor_lengths(ctx: &mut Ctx) {
    let kl = ctx.cfg.key_len;
    let b = ctx.cfg.bs;
    let ctor = *ctx.rng.pick(&[Ctor::Slices, Ctor::InnerSlice]);
    // which dimension is wrong
    let wrong_key = ctx.rng.chance(1, 3);
    let wrong_iv = !wrong_key && ctx.rng.chance(2, 3);
    let bad = |ctx: &mut Ctx, n: usize| -> usize {
        let c = [0, n.saturating_sub(1), n + 1, 2 * n, n / 2, n + ctx.rng.range(1, 40)];
        let v = *ctx.rng.pick(&c);
        if v == n { n + 1 } else { v }
    };
    // subject
    enum S {
        Blk(BlkDesc),
        Buf(BufDesc),
        Stream(StreamDesc),
        Core(CoreDesc),
        Cts(CtsDesc),
    }
    let mut pool: Vec<S> = Vec::new();
    pool.extend(ctx.cfg.blk.iter().cloned().map(S::Blk));
    pool.extend(ctx.cfg.buf.iter().cloned().map(S::Buf));
    pool.extend(ctx.cfg.streams.iter().cloned().map(S::Stream));
    pool.extend(ctx.cfg.cores.iter().cloned().map(S::Core));
    pool.extend(ctx.cfg.cts.iter().cloned().map(S::Cts));
    let i = ctx.rng.below(pool.len());
    let s = pool.swap_remove(i);
    let (name, iv_len, uses_iv) = match &s {
        S::Blk(d) => (subj_name(d), d.iv_len, true),
        S::Buf(d) => (format!("cfb-buf/{}", d.dir.name()), b, true),
        S::Stream(d) => (format!("{}/stream", d.flavor.name()), b, true),
        S::Core(d) => (format!("{}/core", d.flavor.name()), b, true),
        S::Cts(d) => (d.var.name().to_string(), b, d.var.is_cbc()),
    };
    let name = format!("{}/ctor", name);
    ctx.subject(&name);
    let wrong_iv = wrong_iv && uses_iv;
    let klen = if wrong_key { bad(ctx, kl) } else { kl };
    let ilen = if wrong_iv { bad(ctx, iv_len) } else { iv_len };
    let key = ctx.rng.bytes(klen);
    let iv = ctx.rng.bytes(ilen);
    ctx.note("key_len", J::s(format!("{} (right: {})", klen, kl)));
    ctx.note("iv_len", J::s(format!("{} (right: {})", ilen, iv_len)));
    ctx.note("ctor", J::s(format!("{:?}", ctor)));
    let kc = Canary::from(&key);
    let ic = Canary::from(&iv);
    ctx.st.api_calls += 1;
    let r: Result<bool, PanicInfo> = guard(|| match &s {
        S::Blk(d) => (d.mk)(ctor, kc.data(), ic.data()).is_ok(),
        S::Buf(d) => (d.mk)(ctor, kc.data(), ic.data()).is_ok(),
        S::Stream(d) => (d.mk)(ctor, kc.data(), ic.data()).is_ok(),
        S::Core(d) => (d.mk)(ctor, kc.data(), ic.data()).is_ok(),
        S::Cts(d) => (d.mk)(ctor, kc.data(), ic.data()).is_ok(),
    });
    let ok = match r {
        Ok(v) => v,
        Err(p) => return ctx.panic_violation(&name, &p),
    };
    let want = !wrong_key && !wrong_iv;
    if ok != want {
        return ctx.violation(
            &format!("C13/ctor-lengths/{}/{}", if ok { "accepted-wrong-length" } else { "rejected-right-length" }, name),
            format!("key {} bytes (right {}), IV {} bytes (right {}): {}", klen, kl, ilen, iv_len, if ok { "Ok" } else { "Err" }),
        );
    }
    if kc.data() != &key[..] || ic.data() != &iv[..] || !kc.intact() || !ic.intact() {
        return ctx.violation(&format!("C13/rejected-but-modified/{}", name), "key/IV slices changed".into());
    }
    ctx.st.count(if want { "ctor.right-lengths-ok" } else if wrong_key { "ctor.wrong-key-rejected" } else { "ctor.wrong-iv-rejected" });
    ctx.nontrivial = true;
    ctx.cell(format!("ctor|{}|{}|{:?}|k={}|iv={}", name, ctx.cfg.name, ctor, wrong_key, wrong_iv));
}
