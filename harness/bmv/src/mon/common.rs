//! Helpers shared by the monitors: guarded construction, feeding a block sequence
//! through a schedule, model dispatch.

use crate::ctx::{Canary, Ctx, Fill};
use crate::model;
use crate::wl;
use bmv_core::spy::{Dir, Ev, RefCipher};
use bmv_core::subj::*;
use bmv_core::util::{J, PanicInfo, guard};

pub fn subj_name(d: &BlkDesc) -> String {
    format!("{}/{}", d.fam.name(), d.dir.name())
}

/// guarded constructor call; Err(None) = constructor returned Err, Err(Some) = panicked
pub fn mk_blk(ctx: &mut Ctx, d: &BlkDesc, ctor: Ctor, iv: &[u8]) -> Result<Box<dyn BlkObj>, Option<PanicInfo>> {
    ctx.st.api_calls += 1;
    let key = ctx.key.clone();
    match guard(|| (d.mk)(ctor, &key, iv)) {
        Ok(Ok(o)) => Ok(o),
        Ok(Err(())) => Err(None),
        Err(p) => Err(Some(p)),
    }
}

pub struct Feed {
    pub out: Vec<u8>,
    /// iv_state after each piece
    pub states: Vec<Option<Vec<u8>>>,
    pub canaries_ok: bool,
    pub input_untouched: bool,
    /// spy events per piece
    pub evs: Vec<Vec<Ev>>,
}

/// Feed `data` through `obj` piece by piece.
pub fn feed(
    ctx: &mut Ctx,
    obj: &mut dyn BlkObj,
    data: &[u8],
    pieces: &[(usize, BKind)],
    fill: Fill,
) -> Result<Feed, PanicInfo> {
    let bs = obj.bs();
    let mut out = Vec::with_capacity(data.len());
    let mut states = Vec::new();
    let mut evs = Vec::new();
    let mut canaries_ok = true;
    let mut input_untouched = true;
    let mut off = 0;
    for &(n, kind) in pieces {
        let len = n * bs;
        let inp = Canary::from(&data[off..off + len]);
        let pre = fill.make(&mut ctx.rng, inp.data(), len);
        let mut o = Canary::from(&pre);
        let _ = ctx.take_log();
        ctx.st.api_calls += if kind.is_multi() { 1 } else { n as u64 };
        guard(|| obj.call(kind, inp.data(), o.data_mut()))?;
        evs.push(ctx.take_log());
        canaries_ok &= inp.intact() && o.intact();
        input_untouched &= inp.data() == &data[off..off + len];
        out.extend_from_slice(o.data());
        states.push(guard(|| obj.iv_state())?);
        off += len;
    }
    assert_eq!(off, data.len(), "harness: schedule does not cover the data");
    Ok(Feed { out, states, canaries_ok, input_untouched, evs })
}

pub fn pieces_json(p: &[(usize, BKind)]) -> J {
    J::Arr(p.iter().map(|(n, k)| J::s(format!("{}x{}", n, k.name()))).collect())
}

pub fn gen_pieces(ctx: &mut Ctx, n: usize, w: usize) -> (Vec<(usize, BKind)>, &'static str) {
    let (sizes, name) = wl::schedule(&mut ctx.rng, n, w);
    let v = sizes.into_iter().map(|k| (k, wl::any_bkind(&mut ctx.rng))).collect();
    (v, name)
}

/// The definitional model of a block-level family on whole blocks (or, for CFB, any
/// byte length): (output, chaining value as exported by iv_state)
pub fn model_blk(rc: &dyn RefCipher, fam: Family, dir: Direction, iv: &[u8], data: &[u8]) -> (Vec<u8>, Vec<u8>) {
    let dec = dir == Direction::Dec;
    match fam {
        Family::Cbc => if dec { model::cbc_dec(rc, iv, data) } else { model::cbc_enc(rc, iv, data) },
        Family::Pcbc => if dec { model::pcbc_dec(rc, iv, data) } else { model::pcbc_enc(rc, iv, data) },
        Family::Ige => if dec { model::ige_dec(rc, iv, data) } else { model::ige_enc(rc, iv, data) },
        Family::Cfb => model::cfb(rc, iv, data, dec),
        Family::Cfb8 => model::cfb8(rc, iv, data, dec),
        Family::OfbBlk => model::ofb(rc, iv, data),
    }
}

pub fn count_dir(evs: &[Ev], d: Dir) -> usize {
    evs.iter().filter(|e| e.dir == d).count()
}

pub fn len_class(n: usize, w: usize) -> &'static str {
    let w = w.max(1);
    if n == 0 {
        "n=0"
    } else if n == 1 {
        "n=1"
    } else if n < w {
        "n<w"
    } else if n == w {
        "n=w"
    } else if n % w == 0 {
        "n=kw"
    } else if n < 2 * w {
        "w<n<2w"
    } else {
        "n=kw+t"
    }
}

pub fn res_class(len: usize, b: usize) -> &'static str {
    let r = len % b;
    if r == 0 {
        "r=0"
    } else if r == 1 {
        "r=1"
    } else if r == b - 1 {
        "r=b-1"
    } else {
        "r=mid"
    }
}

/// (blocks processed in full batches, scalar blocks processed in a call that also had a
/// batch = the tail, other scalar blocks) for the events of ONE api call
pub fn batch_shape(evs: &[Ev]) -> (usize, usize, usize) {
    use bmv_core::spy::Kind;
    let par = evs.iter().filter(|e| e.kind == Kind::Par).count();
    let single = evs.iter().filter(|e| e.kind != Kind::Par).count();
    if par > 0 { (par, single, 0) } else { (0, 0, single) }
}

/// IV for a keystream flavour, biased to where carries happen. For BelT-CTR the IV is
/// crafted with the harness-owned D so that s0 = E(IV) sits just below 2^32 / 2^64 / 2^128
/// (no test vector can do that); for CTR flavours see `wl::ctr_iv`.
pub fn stream_iv(ctx: &mut Ctx, fl: Flavor, b: usize) -> (Vec<u8>, &'static str) {
    if fl == Flavor::Belt && ctx.rc.has_d() && ctx.rng.chance(2, 3) {
        let w = ctx.cfg.par.max(1) as u128;
        let k = ctx.rng.below(3 * w as usize + 4) as u128;
        let cands: [(u128, &str); 7] = [
            (u128::MAX, "s0=2^128-1"),
            (u128::MAX - 1, "s0=2^128-2"),
            (u128::MAX - k, "s0~2^128-k"),
            ((1u128 << 64) - 1 - k, "s0~2^64-k"),
            ((1u128 << 32) - 1 - k, "s0~2^32-k"),
            ((1u128 << 96) - 1 - k, "s0~2^96-k"),
            (k, "s0~0+k"),
        ];
        let (t, c) = *ctx.rng.pick(&cands);
        let mut blk = t.to_le_bytes().to_vec();
        ctx.rc.d(&mut blk);
        return (blk, c);
    }
    if fl != Flavor::Belt && ctx.rc.has_d() && b >= 8 && ctx.rng.chance(1, 10) {
        // first counter block := D(pattern): the first keystream block has a zero 64-bit word
        return (crafted_preimage(ctx, b), "E(IV)=zero-word");
    }
    wl::ctr_iv(&mut ctx.rng, fl, b)
}

/// a block X with E(X) = a pattern containing an all-zero (or all-ones) aligned 64-bit word:
/// values only the owner of D can produce; bait for "skip the XOR when the word is zero" shortcuts
pub fn crafted_preimage(ctx: &mut Ctx, b: usize) -> Vec<u8> {
    let mut p = ctx.rng.bytes(b);
    let words = b / 8;
    match ctx.rng.below(5) {
        0 => p[..8].fill(0),
        1 => p[(words - 1) * 8..words * 8].fill(0),
        2 => p.fill(0),
        3 => p.fill(0xFF),
        _ => {
            let w = ctx.rng.below(words);
            p[w * 8..w * 8 + 8].fill(0);
        }
    }
    ctx.rc.d(&mut p);
    p
}

/// IV for a block-level mode: ordinary classes, plus (rarely) an IV crafted with D so that E(IV)
/// contains a zero 64-bit word
pub fn mode_iv(ctx: &mut Ctx, iv_len: usize) -> (Vec<u8>, &'static str) {
    let b = ctx.cfg.bs;
    if ctx.rc.has_d() && b >= 8 && iv_len == b && ctx.rng.chance(1, 8) {
        return (crafted_preimage(ctx, b), "E(IV)=zero-word");
    }
    wl::iv(&mut ctx.rng, iv_len)
}

/// data for a mode: ordinary classes, plus (rarely) one block replaced by D(pattern), so that
/// feeding it back through E gives a block with a zero 64-bit word
pub fn mode_data(ctx: &mut Ctx, len: usize) -> (Vec<u8>, &'static str) {
    let b = ctx.cfg.bs;
    let (mut d, c) = wl::data(&mut ctx.rng, len);
    if ctx.rc.has_d() && b >= 8 && len >= b && len <= 65536 && ctx.rng.chance(1, 10) {
        let j = ctx.rng.below(len / b);
        let x = crafted_preimage(ctx, b);
        d[j * b..(j + 1) * b].copy_from_slice(&x);
        return (d, "E(block_j)=zero-word");
    }
    (d, c)
}

/// flavour for this history; a small slice makes sure BelT-CTR (one flavour of seven, in one
/// block size only) gets its share
pub fn pick_flavor(ctx: &mut Ctx, fls: &[Flavor]) -> Flavor {
    if ctx.tier == crate::ctx::Tier::Slice && fls.contains(&Flavor::Belt) && ctx.rng.chance(1, 3) {
        return Flavor::Belt;
    }
    *ctx.rng.pick(fls)
}
