//! C04 — CTR keystream uses the documented counter-block layout in all six flavours.
//! C06 — BelT-CTR: s = E(IV), keystream block i = E(s + i).
//! Both are decided definitionally and *observed at the cipher*: the i-th block the
//! cipher is asked to encrypt must be the block the definition prescribes.

use super::common::*;
use crate::ctx::{ALL_FILLS, Canary, Ctx, diff_desc};
use crate::model;
use crate::wl;
use bmv_core::spy::{self, Dir, Ev};
use bmv_core::subj::*;
use bmv_core::util::{J, guard, hex_short};

pub fn run_c04(ctx: &mut Ctx) {
    let fls: Vec<Flavor> = ctx.cfg.streams.iter().map(|d| d.flavor).filter(|f| f.is_ctr()).collect();
    if fls.is_empty() {
        ctx.st.count("skipped.no-ctr-for-this-block-size");
        return;
    }
    let fl = *ctx.rng.pick(&fls);
    ks_definitional(ctx, fl);
}

pub fn run_c06(ctx: &mut Ctx) {
    if ctx.cfg.stream(Flavor::Belt).is_none() {
        ctx.st.count("skipped.no-belt-for-this-block-size");
        return;
    }
    ks_definitional(ctx, Flavor::Belt);
}

/// far block indices that still leave `room` blocks before the end of the keystream
fn far_index(ctx: &mut Ctx, fl: Flavor, room: u128) -> (u128, &'static str) {
    let limit = model::limit_blocks(fl).unwrap();
    let k = ctx.rng.below(5) as u128;
    let lv = crate::wl::limb_u128(&mut ctx.rng);
    let cands: [(u128, &'static str); 11] = [
        (lv, "limbs"),
        (lv % limit.max(1), "limbs"),
        (0, "0"),
        (1 + k, "small"),
        ((1u128 << 16) - 2 + k, "~2^16"),
        ((1u128 << 32) - 3 + k, "~2^32"),
        ((1u128 << 32) + k, ">2^32"),
        ((1u128 << 64) - 3 + k, "~2^64"),
        ((1u128 << 64) + 1 + k, ">2^64"),
        (limit.saturating_sub(room + k), "limit-room"),
        (ctx.rng.u128(), "random"),
    ];
    let (i, c) = *ctx.rng.pick(&cands);
    if i.checked_add(room).map(|e| e <= limit).unwrap_or(false) { (i, c) } else { (limit - room, "limit-room") }
}

fn crosses_pow2(field: u128, i0: u128, n: u128, bits: u32) -> bool {
    // does field + i (i in i0..i0+n) pass a 2^k - 1 -> 2^k boundary for some k >= 8 (or wrap)?
    let mask: u128 = if bits == 128 { u128::MAX } else { (1u128 << bits) - 1 };
    let a = field.wrapping_add(i0) & mask;
    let b = field.wrapping_add(i0).wrapping_add(n.saturating_sub(1)) & mask;
    if b < a {
        return true; // wrapped
    }
    (a ^ b) >> 8 != 0
}

fn ks_definitional(ctx: &mut Ctx, fl: Flavor) {
    let b = ctx.cfg.bs;
    let w = ctx.cfg.par;
    let is_belt = fl == Flavor::Belt;
    // ---------------- IV
    let (iv, ivc): (Vec<u8>, &str) = if is_belt {
        if ctx.rc.has_d() && ctx.rng.chance(2, 3) {
            // craft IV := D(target) so that s_0 = E(IV) sits where carries happen
            let k = ctx.rng.below(20) as u128;
            let cands: [(u128, &str); 5] = [
                (u128::MAX, "s0=2^128-1"),
                (u128::MAX - 1, "s0=2^128-2"),
                (u128::MAX - 17 + (k % 3), "s0~2^128-17"),
                ((1u128 << 64) - 1 - (k % 4), "s0~2^64-1"),
                ((1u128 << 32) - 1 - (k % 4), "s0~2^32-1"),
            ];
            let (t, c) = *ctx.rng.pick(&cands);
            let mut blk = t.to_le_bytes().to_vec();
            ctx.rc.d(&mut blk);
            (blk, c)
        } else {
            mode_iv(ctx, 16)
        }
    } else {
        stream_iv(ctx, fl, b)
    };
    ctx.note("flavor", J::s(fl.name()));
    ctx.note("iv", J::s(hex_short(&iv)));
    ctx.note("iv_class", J::s(ivc));
    let key = ctx.key.clone();
    let via_stream = ctx.rng.coin();
    let (n, _) = wl::nblocks(&mut ctx.rng, w, b, ctx.tier);
    let n = n.max(1);
    let name = format!("{}/{}", fl.name(), if via_stream { "stream" } else { "core" });
    ctx.subject(&name);

    // expected first E call of BelT construction
    let s0 = if is_belt { Some(model::belt_s0(ctx.rc.as_ref(), &iv)) } else { None };

    let mut i0: u128 = 0;
    let mut idx_class = "0";
    let mut out: Vec<u8>;
    let data: Vec<u8>;
    let mut raw_ks = false;
    let ctor_evs: Vec<Ev>;
    let evs: Vec<Ev>;
    spy::log_start();
    if via_stream {
        let d = ctx.cfg.stream(fl).unwrap().clone();
        // byte stream, possibly starting at a far block (via core + from_core)
        let far = d.mk_at.is_some() && ctx.rng.chance(1, 3);
        let (len, _) = wl::nbytes(&mut ctx.rng, b, w, ctx.tier);
        let len = len.max(1);
        let nb = len.div_ceil(b) as u128;
        data = wl::data(&mut ctx.rng, len).0;
        let mut obj = if far {
            let (i, c) = far_index(ctx, fl, nb + 1);
            i0 = i;
            idx_class = c;
            match guard(|| (d.mk_at.unwrap())(&key, &iv, i)) {
                Ok(o) => o,
                Err(p) => {
                    spy::log_stop();
                    return ctx.panic_violation(&format!("{}/ctor", name), &p);
                }
            }
        } else {
            let ctor = *ctx.rng.pick(&ALL_CTORS);
            match guard(|| (d.mk)(ctor, &key, &iv)) {
                Ok(Ok(o)) => o,
                Ok(Err(())) => {
                    spy::log_stop();
                    return ctx.violation(&format!("{}/ctor-err/{}", ctx.prop, name), "constructor rejected right-length key/IV".into());
                }
                Err(p) => {
                    spy::log_stop();
                    return ctx.panic_violation(&format!("{}/ctor", name), &p);
                }
            }
        };
        ctor_evs = ctx.take_log();
        // optional history before the measured run: consume some keystream, continue on a
        // clone, seek (back) to the start block -- block i must still be E(layout(IV, i))
        if d.cloneable && ctx.rng.chance(1, 4) {
            let warm = ctx.rng.range(1, 6 * b);
            let z = vec![0u8; warm];
            let mut o = vec![0u8; warm];
            let start_bytes = i0.checked_mul(b as u128);
            let r = guard(|| {
                if !obj.try_apply(Form::B2b, &z, &mut o) {
                    return None;
                }
                let mut c = obj.clone_box()?;
                match start_bytes {
                    Some(p) => {
                        if c.try_seek(SeekTy::U128, p) != Some(true) {
                            return None;
                        }
                    }
                    None => return None,
                }
                Some(c)
            });
            match r {
                Ok(Some(c)) => {
                    obj = c;
                    ctx.note("prefix", J::s(format!("apply({}); clone; seek(block {}) on the clone", warm, i0)));
                    ctx.st.count(&format!("clone-seek-prefix.{}", fl.name()));
                }
                Ok(None) => {
                    // position not expressible as u128 bytes (or not seekable): rebuild
                    obj = if far { (d.mk_at.unwrap())(&key, &iv, i0) } else { (d.mk)(Ctor::New, &key, &iv).unwrap() };
                }
                Err(p) => {
                    spy::log_stop();
                    return ctx.panic_violation(&format!("{}/prefix", name), &p);
                }
            }
            let _ = ctx.take_log();
        }
        ctx.note("start_block", J::s(i0.to_string()));
        let (sched, _) = wl::byte_schedule(&mut ctx.rng, len, b);
        ctx.note("data", J::s(hex_short(&data)));
        ctx.note("pieces", J::Arr(sched.iter().map(|x| J::i(*x as i64)).collect()));
        out = Vec::with_capacity(len);
        let mut off = 0;
        for &k in &sched {
            let form = *ctx.rng.pick(&FORMS3);
            let fill = *ctx.rng.pick(&ALL_FILLS);
            let pre = fill.make(&mut ctx.rng, &data[off..off + k], k);
            let mut ob = Canary::from(&pre);
            ctx.st.api_calls += 1;
            match guard(|| obj.try_apply(form, &data[off..off + k], ob.data_mut())) {
                Ok(true) => {}
                Ok(false) => {
                    spy::log_stop();
                    return ctx.violation(&format!("{}/err/{}", ctx.prop, name), format!("try_apply_keystream failed {} blocks before the end of the keystream", nb + 1));
                }
                Err(p) => {
                    spy::log_stop();
                    return ctx.panic_violation(&name, &p);
                }
            }
            out.extend_from_slice(ob.data());
            off += k;
        }
        evs = ctx.take_log();
    } else {
        let d = ctx.cfg.core(fl).unwrap().clone();
        let ctor = *ctx.rng.pick(&ALL_CTORS);
        let mut obj = match guard(|| (d.mk)(ctor, &key, &iv)) {
            Ok(Ok(o)) => o,
            Ok(Err(())) => {
                spy::log_stop();
                return ctx.violation(&format!("{}/ctor-err/{}", ctx.prop, name), "constructor rejected right-length key/IV".into());
            }
            Err(p) => {
                spy::log_stop();
                return ctx.panic_violation(&format!("{}/ctor", name), &p);
            }
        };
        ctor_evs = ctx.take_log();
        if ctx.rng.chance(2, 3) {
            let (i, c) = far_index(ctx, fl, n as u128 + 1);
            i0 = i;
            idx_class = c;
            if let Err(p) = guard(|| obj.set_block_pos(i)) {
                spy::log_stop();
                return ctx.panic_violation(&format!("{}/set_block_pos", name), &p);
            }
        }
        ctx.note("start_block", J::s(i0.to_string()));
        data = wl::data(&mut ctx.rng, n * b).0;
        ctx.note("data", J::s(hex_short(&data)));
        let (sizes, _) = wl::schedule(&mut ctx.rng, n, w);
        raw_ks = ctx.rng.chance(1, 3);
        out = Vec::new();
        let mut off = 0;
        let mut ops = Vec::new();
        for &k in &sizes {
            let op = if raw_ks {
                *ctx.rng.pick(&[CoreOp::WriteBlock, CoreOp::WriteBlocks, CoreOp::BackendWrite, CoreOp::BackendWrite])
            } else {
                *ctx.rng.pick(&[CoreOp::ApplyBlockInout, CoreOp::ApplyBlocks, CoreOp::ApplyBlocksInout])
            };
            ops.push(J::s(format!("{}x{}", k, op.name())));
            let mut ob = Canary::filled(k * b, 0x6D);
            ctx.st.api_calls += 1;
            if let Err(p) = guard(|| obj.op(op, &data[off..off + k * b], ob.data_mut())) {
                spy::log_stop();
                return ctx.panic_violation(&name, &p);
            }
            out.extend_from_slice(ob.data());
            off += k * b;
        }
        ctx.note("ops", J::Arr(ops));
        evs = ctx.take_log();
    }
    spy::log_stop();

    // ---------------- definitional comparison of the bytes
    let len = out.len();
    let nb = len.div_ceil(b);
    let ks = model::ks_bytes_at(ctx.rc.as_ref(), fl, &iv, i0, 0, len);
    let want: Vec<u8> = if raw_ks { ks.clone() } else { data.iter().zip(&ks).map(|(a, k)| a ^ k).collect() };
    if out != want {
        let det = format!("start block {}: {}", i0, diff_desc("output vs input XOR E(counter blocks)", &out, &want, b));
        return ctx.violation(&format!("{}/output/{}", ctx.prop, name), det);
    }
    // ---------------- what the cipher was asked to encrypt
    // Only containment is demanded: every counter block the definition names must have been
    // presented to the cipher at some point of the history (construction included: *when* BelT's
    // s0 = E(IV) is computed is not part of the definition), in any order (a batch may be generated
    // back to front or ahead of time). With a cipher only the harness knows, correct output already
    // implies this; the log turns "wrong output" into "wrong counter block i".
    if ctx.cfg.spied {
        if s0.is_some() && !ctor_evs.iter().chain(evs.iter()).any(|e| e.dir == Dir::E && e.inp == iv) {
            return ctx.violation(
                &format!("{}/ctor-cipher-input/{}", ctx.prop, name),
                format!("the IV was never encrypted ({} cipher calls during construction, {} afterwards)", ctor_evs.len(), evs.len()),
            );
        }
        let seen: std::collections::HashSet<&[u8]> = evs.iter().chain(ctor_evs.iter()).filter(|e| e.dir == Dir::E).map(|e| e.inp.as_slice()).collect();
        for j in 0..nb {
            let want_in = model::ks_input(ctx.rc.as_ref(), fl, &iv, i0 + j as u128);
            if !seen.contains(want_in.as_slice()) {
                let got = evs.get(j).map(|e| hex_short(&e.inp)).unwrap_or_else(|| "<none>".into());
                return ctx.violation(
                    &format!("{}/counter-block/{}", ctx.prop, name),
                    format!(
                        "keystream block {} (start {} + {}): the definition needs E({}) but the cipher was asked for {} ({} calls in total)",
                        i0 + j as u128,
                        i0,
                        j,
                        hex_short(&want_in),
                        got,
                        evs.len()
                    ),
                );
            }
        }
        for call in [&evs] {
            let (par, tail, _) = batch_shape(call);
            if par > 0 {
                ctx.st.count(&format!("par-events.{}", fl.name()));
            }
            if tail > 0 {
                ctx.st.count(&format!("tail-events.{}", fl.name()));
            }
        }
    }
    ctx.st.count(&format!("ok.{}", name));
    ctx.st.count(&format!("idx.{}.{}", fl.name(), idx_class));
    ctx.st.count(&format!("iv.{}.{}", fl.name(), ivc));
    // non-trivial: carries are possible or nonce words exist
    let nontrivial = if is_belt {
        let s0 = s0.unwrap();
        let a = s0.wrapping_add(i0).wrapping_add(1);
        let e = a.wrapping_add(nb as u128 - 1);
        e < a || (a ^ e) >> 8 != 0 || w > 1
    } else {
        let bits = fl.bits().unwrap();
        let wbytes = (bits / 8) as usize;
        let field_bytes: Vec<u8> = if fl.big_endian() { iv[b - wbytes..].to_vec() } else { iv[..wbytes].iter().rev().cloned().collect() };
        let mut field: u128 = 0;
        for x in field_bytes {
            field = (field << 8) | x as u128;
        }
        let crosses = crosses_pow2(field, i0, nb as u128, bits);
        if crosses {
            ctx.st.count(&format!("crosses-2^k.{}", fl.name()));
        }
        if b > wbytes {
            ctx.st.count(&format!("multiword-nonce.{}", fl.name()));
        }
        if i0 >= (1u128 << 16) {
            ctx.st.count(&format!("far-index.{}", fl.name()));
        }
        crosses || b > wbytes
    };
    if is_belt {
        if ivc.starts_with("s0") {
            ctx.st.count("belt.s0-near-boundary");
        }
        if w > 1 {
            ctx.st.count("belt.width>1");
        }
    }
    if nontrivial {
        ctx.nontrivial = true;
        ctx.cell(format!("{}|{}|{}|{}|{}", name, ctx.cfg.name, ivc, idx_class, len_class(nb, w)));
    }
}
