//! C03 — CFB, CFB-8 and OFB compute exactly their defining recurrences
//! (block-level, one-shot with partial final block, buffered, keystream core, byte stream).

use super::c02::definitional_blocks;
use super::common::*;
use crate::ctx::{ALL_FILLS, Canary, Ctx, diff_desc};
use crate::model;
use crate::wl;
use bmv_core::spy::{self, Dir};
use bmv_core::subj::*;
use bmv_core::util::{J, guard, hex_short};

pub fn run(ctx: &mut Ctx) {
    match ctx.rng.below(10) {
        0..=2 => {
            let fam = *ctx.rng.pick(&[Family::Cfb, Family::Cfb8, Family::OfbBlk]);
            let dir = *ctx.rng.pick(&[Direction::Enc, Direction::Dec]);
            definitional_blocks(ctx, fam, dir);
        }
        3..=5 => oneshot(ctx),
        6..=7 => buffered(ctx),
        _ => ofb_stream(ctx),
    }
}

/// AsyncStreamCipher one-shot on any byte length
fn oneshot(ctx: &mut Ctx) {
    let fam = *ctx.rng.pick(&[Family::Cfb, Family::Cfb8]);
    let dir = *ctx.rng.pick(&[Direction::Enc, Direction::Dec]);
    let Some(d) = ctx.cfg.blk(fam, dir).cloned() else { return };
    let name = format!("{}/oneshot", subj_name(&d));
    ctx.subject(&name);
    let b = ctx.cfg.bs;
    let (iv, _) = mode_iv(ctx, d.iv_len);
    let (mut len, rc) = wl::nbytes(&mut ctx.rng, b, ctx.cfg.par, ctx.tier);
    if fam == Family::Cfb8 {
        len = len.min(500);
    }
    let (data, dc) = mode_data(ctx, len);
    let form = *ctx.rng.pick(&FORMS3);
    let fill = *ctx.rng.pick(&ALL_FILLS);
    ctx.note("iv", J::s(hex_short(&iv)));
    ctx.note("len", J::i(len as i64));
    ctx.note("data", J::s(hex_short(&data)));
    ctx.note("data_class", J::s(dc));
    ctx.note("form", J::s(form.name()));
    ctx.note("prefill", J::s(fill.name()));
    spy::log_start();
    let obj = match mk_blk(ctx, &d, Ctor::New, &iv) {
        Ok(o) => o,
        Err(Some(p)) => return ctx.panic_violation(&format!("{}/ctor", name), &p),
        Err(None) => return,
    };
    let ctor_evs = ctx.take_log();
    let inp = Canary::from(&data);
    let pre = fill.make(&mut ctx.rng, &data, len);
    let mut out = Canary::from(&pre);
    ctx.st.api_calls += 1;
    let r = guard(|| obj.oneshot(form, inp.data(), out.data_mut()));
    let evs = ctx.take_log();
    spy::log_stop();
    match r {
        Err(p) => return ctx.panic_violation(&name, &p),
        Ok(None) => return,
        Ok(Some(false)) => return ctx.violation(&format!("{}/err/{}", ctx.prop, name), "one-shot call with equal lengths returned Err".into()),
        Ok(Some(true)) => {}
    }
    let want = model_blk(ctx.rc.as_ref(), fam, dir, &iv, &data).0;
    if out.data() != &want[..] {
        let det = diff_desc("one-shot output vs recurrence", out.data(), &want, b);
        return ctx.violation(&format!("{}/output/{}", ctx.prop, name), det);
    }
    if !out.intact() || !inp.intact() || inp.data() != &data[..] {
        return ctx.violation(&format!("{}/canary/{}", ctx.prop, name), "buffers outside the call's output were modified".into());
    }
    if ctx.cfg.spied {
        if let Some(bad) = evs.iter().chain(ctor_evs.iter()).find(|e| e.dir != Dir::E) {
            return ctx.violation(&format!("{}/direction/{}", ctx.prop, name), format!("cipher used in direction {:?} (input {})", bad.dir, hex_short(&bad.inp)));
        }
    }
    ctx.st.count(&format!("ok.{}", name));
    if len % b != 0 {
        ctx.st.count(&format!("partial-final-block.{}", name));
    }
    if len > b {
        ctx.nontrivial = true;
        ctx.cell(format!("{}|{}|{}|{}|{}", name, ctx.cfg.name, res_class(len, b), form.name(), len_class(len / b, ctx.cfg.par)));
    }
    let _ = rc;
}

/// BufEncryptor / BufDecryptor under any chunking
fn buffered(ctx: &mut Ctx) {
    let dir = *ctx.rng.pick(&[Direction::Enc, Direction::Dec]);
    let Some(d) = ctx.cfg.buf(dir).cloned() else { return };
    let name = format!("cfb-buf/{}", dir.name());
    ctx.subject(&name);
    let b = ctx.cfg.bs;
    let (iv, _) = mode_iv(ctx, b);
    let (len, _) = wl::nbytes(&mut ctx.rng, b, ctx.cfg.par, ctx.tier);
    let (data, _) = mode_data(ctx, len);
    let (sched, sc) = wl::byte_schedule(&mut ctx.rng, len, b);
    ctx.note("iv", J::s(hex_short(&iv)));
    ctx.note("data", J::s(hex_short(&data)));
    ctx.note("pieces", J::Arr(sched.iter().map(|x| J::i(*x as i64)).collect()));
    let key = ctx.key.clone();
    spy::log_start();
    let mut obj = match guard(|| (d.mk)(Ctor::New, &key, &iv)) {
        Ok(Ok(o)) => o,
        Ok(Err(())) => return,
        Err(p) => return ctx.panic_violation(&format!("{}/ctor", name), &p),
    };
    let mut out = Vec::with_capacity(len);
    let mut off = 0;
    for &k in &sched {
        let mut piece = Canary::from(&data[off..off + k]);
        ctx.st.api_calls += 1;
        if let Err(p) = guard(|| obj.apply(piece.data_mut())) {
            spy::log_stop();
            return ctx.panic_violation(&name, &p);
        }
        if !piece.intact() {
            spy::log_stop();
            return ctx.violation(&format!("{}/canary/{}", ctx.prop, name), "write outside the piece".into());
        }
        out.extend_from_slice(piece.data());
        off += k;
    }
    let evs = ctx.take_log();
    spy::log_stop();
    let want = model::cfb(ctx.rc.as_ref(), &iv, &data, dir == Direction::Dec).0;
    if out != want {
        let det = diff_desc("buffered CFB output vs recurrence", &out, &want, b);
        return ctx.violation(&format!("{}/output/{}", ctx.prop, name), det);
    }
    if ctx.cfg.spied {
        if let Some(bad) = evs.iter().find(|e| e.dir != Dir::E) {
            return ctx.violation(&format!("{}/direction/{}", ctx.prop, name), format!("cipher used in direction {:?}", bad.dir));
        }
    }
    ctx.st.count(&format!("ok.{}", name));
    if len > b && sched.len() >= 2 {
        ctx.nontrivial = true;
        ctx.cell(format!("{}|{}|{}|{}", name, ctx.cfg.name, res_class(len, b), sc));
    }
}

/// OFB as keystream core and as byte-level stream cipher
fn ofb_stream(ctx: &mut Ctx) {
    let b = ctx.cfg.bs;
    let (iv, _) = mode_iv(ctx, b);
    let key = ctx.key.clone();
    ctx.note("iv", J::s(hex_short(&iv)));
    if ctx.rng.coin() {
        let Some(d) = ctx.cfg.stream(Flavor::Ofb).cloned() else { return };
        let name = "ofb/stream".to_string();
        ctx.subject(&name);
        let (len, _) = wl::nbytes(&mut ctx.rng, b, ctx.cfg.par, ctx.tier);
        let (data, _) = mode_data(ctx, len);
        let (sched, sc) = wl::byte_schedule(&mut ctx.rng, len, b);
        ctx.note("data", J::s(hex_short(&data)));
        ctx.note("pieces", J::Arr(sched.iter().map(|x| J::i(*x as i64)).collect()));
        spy::log_start();
        let mut obj = match guard(|| (d.mk)(Ctor::New, &key, &iv)) {
            Ok(Ok(o)) => o,
            Ok(Err(())) => return,
            Err(p) => return ctx.panic_violation(&format!("{}/ctor", name), &p),
        };
        let mut out = Vec::new();
        let mut off = 0;
        for &k in &sched {
            let form = *ctx.rng.pick(&FORMS3);
            let fill = *ctx.rng.pick(&ALL_FILLS);
            let inp = &data[off..off + k];
            let pre = fill.make(&mut ctx.rng, inp, k);
            let mut o = Canary::from(&pre);
            ctx.st.api_calls += 1;
            match guard(|| obj.try_apply(form, inp, o.data_mut())) {
                Err(p) => {
                    spy::log_stop();
                    return ctx.panic_violation(&name, &p);
                }
                Ok(false) => {
                    spy::log_stop();
                    return ctx.violation(&format!("{}/err/{}", ctx.prop, name), "OFB byte stream returned an error".into());
                }
                Ok(true) => {}
            }
            out.extend_from_slice(o.data());
            off += k;
        }
        let evs = ctx.take_log();
        spy::log_stop();
        let want = model::ofb(ctx.rc.as_ref(), &iv, &data).0;
        if out != want {
            let det = diff_desc("OFB stream output vs recurrence", &out, &want, b);
            return ctx.violation(&format!("{}/output/{}", ctx.prop, name), det);
        }
        if ctx.cfg.spied && evs.iter().any(|e| e.dir != Dir::E) {
            return ctx.violation(&format!("{}/direction/{}", ctx.prop, name), "cipher used in the decryption direction".into());
        }
        ctx.st.count(&format!("ok.{}", name));
        if len > b {
            ctx.nontrivial = true;
            ctx.cell(format!("{}|{}|{}|{}", name, ctx.cfg.name, res_class(len, b), sc));
        }
    } else {
        let Some(d) = ctx.cfg.core(Flavor::Ofb).cloned() else { return };
        let name = "ofb/core".to_string();
        ctx.subject(&name);
        let (n, _) = wl::nblocks(&mut ctx.rng, ctx.cfg.par, b, ctx.tier);
        let (data, _) = mode_data(ctx, n * b);
        let (sizes, sc) = wl::schedule(&mut ctx.rng, n, ctx.cfg.par);
        ctx.note("data", J::s(hex_short(&data)));
        spy::log_start();
        let mut obj = match guard(|| (d.mk)(Ctor::New, &key, &iv)) {
            Ok(Ok(o)) => o,
            Ok(Err(())) => return,
            Err(p) => return ctx.panic_violation(&format!("{}/ctor", name), &p),
        };
        let mut out = Vec::new();
        let mut want = Vec::new();
        let full = model::ofb(ctx.rc.as_ref(), &iv, &data).0;
        let ks = model::ofb_keystream(ctx.rc.as_ref(), &iv, n);
        let mut off = 0;
        let mut ops = Vec::new();
        for &k in &sizes {
            let op = *ctx.rng.pick(&ALL_COREOPS);
            ops.push(J::s(format!("{}x{}", k, op.name())));
            let inp = &data[off..off + k * b];
            let mut o = Canary::filled(k * b, 0xC3);
            ctx.st.api_calls += 1;
            if let Err(p) = guard(|| obj.op(op, inp, o.data_mut())) {
                spy::log_stop();
                return ctx.panic_violation(&name, &p);
            }
            out.extend_from_slice(o.data());
            if op.is_write() {
                want.extend_from_slice(&ks[off..off + k * b]);
            } else {
                want.extend_from_slice(&full[off..off + k * b]);
            }
            off += k * b;
        }
        ctx.note("ops", J::Arr(ops));
        let evs = ctx.take_log();
        spy::log_stop();
        if out != want {
            let det = diff_desc("OFB core output vs recurrence", &out, &want, b);
            return ctx.violation(&format!("{}/output/{}", ctx.prop, name), det);
        }
        if ctx.cfg.spied && evs.iter().any(|e| e.dir != Dir::E) {
            return ctx.violation(&format!("{}/direction/{}", ctx.prop, name), "cipher used in the decryption direction".into());
        }
        ctx.st.count(&format!("ok.{}", name));
        if n >= 2 {
            ctx.nontrivial = true;
            ctx.cell(format!("{}|{}|{}|{}", name, ctx.cfg.name, len_class(n, ctx.cfg.par), sc));
        }
    }
}
