//! C07 — output is independent of block batching and of the cipher's parallel width.
//! (relative: the implementation is its own reference)

use super::common::*;
use crate::ctx::{ALL_FILLS, Canary, Ctx, Fill, diff_desc};
use crate::wl;
use bmv_core::spy;
use bmv_core::subj::*;
use bmv_core::util::{J, guard, hex_short};

pub fn run(ctx: &mut Ctx) {
    match ctx.rng.below(10) {
        0..=5 => blk(ctx),
        6..=7 => core(ctx),
        _ => cts_width(ctx),
    }
}

const FAMS: [Family; 6] = [Family::Cbc, Family::Pcbc, Family::Ige, Family::Cfb, Family::Cfb8, Family::OfbBlk];

/// the twin configuration: same cipher family and block size, different declared width
/// (same key => same permutation)
fn twin<'a>(ctx: &Ctx<'a>, all: &'a [Cfg]) -> Option<&'a Cfg> {
    let me = ctx.cfg;
    if me.real || me.enc_only {
        return None;
    }
    let c: Vec<&Cfg> = all.iter().filter(|c| !c.real && !c.enc_only && c.bs == me.bs && c.par != me.par).collect();
    if c.is_empty() { None } else { Some(c[(ctx.case_seed % c.len() as u64) as usize]) }
}

fn blk(ctx: &mut Ctx) {
    let fam = *ctx.rng.pick(&FAMS);
    // bias towards the directions that actually batch
    let dir = if matches!(fam, Family::Cbc | Family::Cfb) && ctx.rng.chance(2, 3) { Direction::Dec } else { *ctx.rng.pick(&[Direction::Enc, Direction::Dec]) };
    let Some(d) = ctx.cfg.blk(fam, dir).cloned() else { return };
    let name = subj_name(&d);
    ctx.subject(&name);
    let w = ctx.cfg.par;
    let (iv, _) = mode_iv(ctx, d.iv_len);
    let n = if fam == Family::Cfb8 { wl::nbytes(&mut ctx.rng, ctx.cfg.bs, w, ctx.tier).0.min(300) } else { wl::nblocks(&mut ctx.rng, w, d.bs, ctx.tier).0 };
    let (data, dc) = mode_data(ctx, n * d.bs);
    let (pieces, sc) = gen_pieces(ctx, n, w);
    let fill = *ctx.rng.pick(&ALL_FILLS);
    ctx.note("iv", J::s(hex_short(&iv)));
    ctx.note("data", J::s(hex_short(&data)));
    ctx.note("data_class", J::s(dc));
    ctx.note("schedule", pieces_json(&pieces));
    // (a) one block per call
    let singles: Vec<(usize, BKind)> = (0..n).map(|_| (1, BKind::BlockIp)).collect();
    let (Ok(mut a), Ok(mut bobj)) = (mk_blk(ctx, &d, Ctor::New, &iv), mk_blk(ctx, &d, Ctor::New, &iv)) else { return };
    spy::log_start();
    let fa = feed(ctx, a.as_mut(), &data, &singles, Fill::Zero);
    let fb = feed(ctx, bobj.as_mut(), &data, &pieces, fill);
    spy::log_stop();
    let (fa, fb) = match (fa, fb) {
        (Ok(x), Ok(y)) => (x, y),
        (Err(_), Err(_)) => {
            ctx.st.count("vacuous.both-panic");
            return;
        }
        (Err(p), _) => return ctx.violation(&format!("C07/panic-one-side/{}", name), format!("one-block-at-a-time run panicked ({}) but the scheduled run did not", p.0)),
        (_, Err(p)) => return ctx.violation(&format!("C07/panic-one-side/{}", name), format!("scheduled run panicked ({}) but the one-block-at-a-time run did not", p.0)),
    };
    if fa.out != fb.out {
        let det = diff_desc("scheduled output vs one-block-at-a-time output", &fb.out, &fa.out, d.bs);
        return ctx.violation(&format!("C07/output/{}", name), det);
    }
    // chaining state after each piece boundary
    let mut blocks_done = 0;
    for (k, (pn, _)) in pieces.iter().enumerate() {
        blocks_done += pn;
        let sa = if blocks_done == 0 { Some(iv_state_initial(ctx, &d, &iv)) } else { fa.states.get(blocks_done - 1).cloned() };
        if let (Some(sa), Some(sb)) = (sa, fb.states.get(k)) {
            if &sa != sb {
                return ctx.violation(
                    &format!("C07/state/{}", name),
                    format!("after piece {} ({} blocks): scheduled iv_state {:?} != one-block-at-a-time iv_state {:?}", k, blocks_done, sb.as_ref().map(|v| hex_short(v)), sa.as_ref().map(|v| hex_short(v))),
                );
            }
        }
    }
    // evidence that batches were really formed
    let mut full = 0;
    let mut tail = 0;
    for call in &fb.evs {
        let (p, t, _) = batch_shape(call);
        full += p / w.max(1);
        tail += t;
    }
    if full >= 1 {
        ctx.st.count(&format!("batched.{}", name));
    }
    if full >= 2 && tail >= 1 {
        ctx.st.count(&format!("two-batches-and-tail.{}", name));
    }
    ctx.st.count(&format!("ok.{}", name));
    if (full >= 2 && tail >= 1) || pieces.len() >= 3 {
        ctx.nontrivial = true;
        ctx.cell(format!("{}|{}|{}|{}|batches={}|tail={}", name, ctx.cfg.name, len_class(n, w), sc, full.min(3), tail.min(2)));
    }
}

fn iv_state_initial(ctx: &mut Ctx, d: &BlkDesc, iv: &[u8]) -> Option<Vec<u8>> {
    match mk_blk(ctx, d, Ctor::New, iv) {
        Ok(o) => guard(|| o.iv_state()).ok().flatten(),
        _ => None,
    }
}

/// keystream cores (CTR flavours, BelT, OFB): any partition of block calls == one block at a time
fn core(ctx: &mut Ctx) {
    if ctx.cfg.cores.is_empty() {
        return;
    }
    let d = ctx.rng.pick(&ctx.cfg.cores).clone();
    let name = format!("{}/core", d.flavor.name());
    ctx.subject(&name);
    let b = ctx.cfg.bs;
    let w = ctx.cfg.par;
    let (iv, _) = stream_iv(ctx, d.flavor, b);
    let (n, _) = wl::nblocks(&mut ctx.rng, w, b, ctx.tier);
    let (data, _) = mode_data(ctx, n * b);
    let (sizes, sc) = wl::schedule(&mut ctx.rng, n, w);
    let ops: Vec<CoreOp> = sizes.iter().map(|_| *ctx.rng.pick(&ALL_COREOPS)).collect();
    ctx.note("iv", J::s(hex_short(&iv)));
    ctx.note("data", J::s(hex_short(&data)));
    ctx.note("ops", J::Arr(sizes.iter().zip(&ops).map(|(k, o)| J::s(format!("{}x{}", k, o.name()))).collect()));
    let key = ctx.key.clone();
    spy::log_start();
    let r = guard(|| {
        let mut a = (d.mk)(Ctor::New, &key, &iv).unwrap();
        let mut bb = (d.mk)(Ctor::New, &key, &iv).unwrap();
        // (a) one block per call, raw keystream
        let mut ks = vec![0u8; n * b];
        for i in 0..n {
            a.op(CoreOp::WriteBlock, &[], &mut ks[i * b..(i + 1) * b]);
        }
        let st_a = (a.get_block_pos(), a.iv_state(), a.remaining_blocks());
        let _ = spy::log_take();
        // (b) schedule
        let mut out = Vec::new();
        let mut want = Vec::new();
        let mut off = 0;
        let mut shapes = Vec::new();
        for (k, op) in sizes.iter().zip(&ops) {
            let mut ob = Canary::filled(k * b, 0x42);
            bb.op(*op, &data[off..off + k * b], ob.data_mut());
            shapes.push(batch_shape(&spy::log_take()));
            assert!(ob.intact(), "canary");
            out.extend_from_slice(ob.data());
            if op.is_write() {
                want.extend_from_slice(&ks[off..off + k * b]);
            } else {
                want.extend(data[off..off + k * b].iter().zip(&ks[off..off + k * b]).map(|(x, y)| x ^ y));
            }
            off += k * b;
        }
        let st_b = (bb.get_block_pos(), bb.iv_state(), bb.remaining_blocks());
        (out, want, st_a, st_b, shapes)
    });
    spy::log_stop();
    ctx.st.api_calls += (n + sizes.len()) as u64;
    match r {
        Err(p) => {
            // both sides are inside one guard: attribute to the schedule only if singles alone work
            ctx.panic_violation(&name, &p)
        }
        Ok((out, want, st_a, st_b, shapes)) => {
            if out != want {
                let det = diff_desc("scheduled core output vs one-block-at-a-time keystream", &out, &want, b);
                return ctx.violation(&format!("C07/output/{}", name), det);
            }
            if st_a != st_b {
                return ctx.violation(&format!("C07/state/{}", name), format!("(block_pos, iv_state, remaining) differ: scheduled {:?} vs singles {:?}", st_b, st_a));
            }
            let full: usize = shapes.iter().map(|s| s.0 / w.max(1)).sum();
            let tail: usize = shapes.iter().map(|s| s.1).sum();
            if full >= 1 {
                ctx.st.count(&format!("batched.{}", name));
            }
            if full >= 2 && tail >= 1 {
                ctx.st.count(&format!("two-batches-and-tail.{}", name));
            }
            ctx.st.count(&format!("ok.{}", name));
            if (full >= 2 && tail >= 1) || sizes.len() >= 3 {
                ctx.nontrivial = true;
                ctx.cell(format!("{}|{}|{}|{}|batches={}|tail={}", name, ctx.cfg.name, len_class(n, w), sc, full.min(3), tail.min(2)));
            }
        }
    }
}

/// CTS one-shot on long messages and block modes under a *different declared width* of
/// the same permutation (Toy<b,w> vs Toy<b,w'> with the same key)
fn cts_width(ctx: &mut Ctx) {
    let all = crate::all_cfgs_cached();
    let Some(other) = twin(ctx, all) else {
        ctx.st.count("skipped.no-width-twin");
        return;
    };
    let b = ctx.cfg.bs;
    let w = ctx.cfg.par.max(other.par);
    let key = ctx.key.clone();
    let (iv, _) = mode_iv(ctx, b);
    if ctx.rng.coin() && !ctx.cfg.cts.is_empty() {
        let d1 = ctx.rng.pick(&ctx.cfg.cts).clone();
        let d2 = other.cts(d1.var).unwrap().clone();
        let dir = *ctx.rng.pick(&[Direction::Enc, Direction::Dec]);
        let name = format!("{}/{}/width", d1.var.name(), dir.name());
        ctx.subject(&name);
        let (extra, rc) = wl::nbytes(&mut ctx.rng, b, w, ctx.tier);
        let len = (b + extra).min(wl::MAX_LONG_BYTES);
        let (data, _) = mode_data(ctx, len);
        ctx.note("iv", J::s(hex_short(&iv)));
        ctx.note("data", J::s(hex_short(&data)));
        ctx.note("other_cfg", J::s(&other.name));
        let r = guard(|| {
            let a = (d1.mk)(Ctor::New, &key, &iv).unwrap();
            let bb = (d2.mk)(Ctor::New, &key, &iv).unwrap();
            let mut o1 = vec![0u8; len];
            let mut o2 = vec![0xFFu8; len];
            let r1 = a.run(dir, Form::B2b, &data, &mut o1);
            let r2 = bb.run(dir, Form::InPlace, &data, &mut o2);
            (r1, r2, o1, o2)
        });
        ctx.st.api_calls += 2;
        match r {
            Err(p) => ctx.panic_violation(&name, &p),
            Ok((r1, r2, o1, o2)) => {
                if r1 != r2 || o1 != o2 {
                    let det = format!("width {} vs width {}: {}", ctx.cfg.par, other.par, diff_desc("outputs", &o1, &o2, b));
                    return ctx.violation(&format!("C07/width/{}", name), det);
                }
                ctx.st.count(&format!("ok.{}", name));
                ctx.st.count("ok.width-twin");
                if len > 2 * w * b {
                    ctx.nontrivial = true;
                    ctx.cell(format!("{}|{}~{}|{}|n>2w", name, ctx.cfg.name, other.name, rc));
                }
            }
        }
    } else {
        let fam = *ctx.rng.pick(&FAMS);
        let dir = *ctx.rng.pick(&[Direction::Enc, Direction::Dec]);
        let (Some(d1), Some(d2)) = (ctx.cfg.blk(fam, dir).cloned(), other.blk(fam, dir).cloned()) else { return };
        let name = format!("{}/width", subj_name(&d1));
        ctx.subject(&name);
        let (iv, _) = mode_iv(ctx, d1.iv_len);
        let n = if fam == Family::Cfb8 { 3 * b + 1 } else { wl::nblocks(&mut ctx.rng, w, d1.bs, ctx.tier).0 };
        let (data, _) = mode_data(ctx, n * d1.bs);
        let (pieces, sc) = gen_pieces(ctx, n, w);
        ctx.note("iv", J::s(hex_short(&iv)));
        ctx.note("data", J::s(hex_short(&data)));
        ctx.note("schedule", pieces_json(&pieces));
        ctx.note("other_cfg", J::s(&other.name));
        let (Ok(mut a), Ok(Ok(mut bb))) = (mk_blk(ctx, &d1, Ctor::New, &iv), guard(|| (d2.mk)(Ctor::New, &key, &iv))) else { return };
        let fa = feed(ctx, a.as_mut(), &data, &pieces, Fill::Ones);
        let fb = feed(ctx, bb.as_mut(), &data, &pieces, Fill::Zero);
        match (fa, fb) {
            (Ok(fa), Ok(fb)) => {
                if fa.out != fb.out || fa.states != fb.states {
                    let det = format!("width {} vs width {}: {}", ctx.cfg.par, other.par, diff_desc("outputs", &fa.out, &fb.out, d1.bs));
                    return ctx.violation(&format!("C07/width/{}", name), det);
                }
                ctx.st.count(&format!("ok.{}", name));
                ctx.st.count("ok.width-twin");
                if n > w {
                    ctx.nontrivial = true;
                    ctx.cell(format!("{}|{}~{}|{}|{}", name, ctx.cfg.name, other.name, len_class(n, w), sc));
                }
            }
            (Err(_), Err(_)) => ctx.st.count("vacuous.both-panic"),
            (Err(p), _) | (_, Err(p)) => ctx.violation(&format!("C07/panic-one-side/{}", name), format!("one width panicked: {}", p.0)),
        }
    }
}
