//! C02 — CBC, PCBC and IGE compute exactly their defining recurrences, both directions.
//! C03 shares `definitional_blocks` for the block-level view of CFB / CFB-8 / OFB.

use super::common::*;
use crate::ctx::{ALL_FILLS, Ctx, diff_desc};
use crate::wl;
use bmv_core::spy::{Dir, Ev};
use bmv_core::subj::*;
use bmv_core::util::{J, hex_short, xor};

pub fn run(ctx: &mut Ctx) {
    let fam = *ctx.rng.pick(&[Family::Cbc, Family::Pcbc, Family::Ige]);
    let dir = *ctx.rng.pick(&[Direction::Enc, Direction::Dec]);
    definitional_blocks(ctx, fam, dir);
}

/// what the cipher must have been asked to process for block i (None = not pinned)
fn expected_cipher_input(
    fam: Family,
    dir: Direction,
    iv: &[u8],
    inp: &[u8],
    out: &[u8],
    i: usize,
    b: usize,
) -> Option<Vec<u8>> {
    let blk = |s: &[u8], j: usize| s[j * b..(j + 1) * b].to_vec();
    let enc = dir == Direction::Enc;
    match fam {
        Family::Cbc => {
            if enc {
                let prev = if i == 0 { iv.to_vec() } else { blk(out, i - 1) };
                Some(xor(&blk(inp, i), &prev))
            } else {
                Some(blk(inp, i))
            }
        }
        Family::Pcbc => {
            // S_{i-1} = P_{i-1} ^ C_{i-1}
            let s = if i == 0 { iv.to_vec() } else { xor(&blk(inp, i - 1), &blk(out, i - 1)) };
            if enc { Some(xor(&blk(inp, i), &s)) } else { Some(blk(inp, i)) }
        }
        Family::Ige => {
            // enc: E(P_i ^ C_{i-1}); dec: D(C_i ^ P_{i-1})
            if enc {
                let cprev = if i == 0 { iv[..b].to_vec() } else { blk(out, i - 1) };
                Some(xor(&blk(inp, i), &cprev))
            } else {
                let pprev = if i == 0 { iv[b..].to_vec() } else { blk(out, i - 1) };
                Some(xor(&blk(inp, i), &pprev))
            }
        }
        Family::Cfb | Family::Cfb8 | Family::OfbBlk => None,
    }
}

pub fn definitional_blocks(ctx: &mut Ctx, fam: Family, dir: Direction) {
    let Some(d) = ctx.cfg.blk(fam, dir).cloned() else {
        ctx.st.count("skipped.no-such-subject");
        return;
    };
    let name = subj_name(&d);
    ctx.subject(&name);
    let w = ctx.cfg.par;
    let cb = ctx.cfg.bs; // cipher block size
    let (iv, ivc) = mode_iv(ctx, d.iv_len);
    // CFB-8 processes one byte per mode block: lengths are in bytes there
    let (n, lc) = if fam == Family::Cfb8 {
        let (nb, c) = wl::nbytes(&mut ctx.rng, cb, w, ctx.tier);
        (nb.min(600), c)
    } else {
        wl::nblocks(&mut ctx.rng, w, d.bs, ctx.tier)
    };
    let (mut data, dc) = mode_data(ctx, n * d.bs);
    if dir == Direction::Dec && n >= 1 && ctx.rng.chance(1, 5) && d.bs == cb {
        // the IV itself as first ciphertext block
        data[..cb].copy_from_slice(&iv[..cb]);
    }
    let (pieces, sc) = gen_pieces(ctx, n, w);
    let fill = *ctx.rng.pick(&ALL_FILLS);
    let ctor = *ctx.rng.pick(&ALL_CTORS);
    ctx.note("iv", J::s(hex_short(&iv)));
    ctx.note("iv_class", J::s(ivc));
    ctx.note("n_blocks", J::i(n as i64));
    ctx.note("data_class", J::s(dc));
    ctx.note("data", J::s(hex_short(&data)));
    ctx.note("schedule", pieces_json(&pieces));
    ctx.note("prefill", J::s(fill.name()));
    ctx.note("ctor", J::s(format!("{:?}", ctor)));

    bmv_core::spy::log_start();
    let mut obj = match mk_blk(ctx, &d, ctor, &iv) {
        Ok(o) => o,
        Err(Some(p)) => return ctx.panic_violation(&format!("{}/ctor", name), &p),
        Err(None) => return ctx.violation(&format!("{}/ctor-err/{}", ctx.prop, name), "constructor rejected a key/IV of the right length".into()),
    };
    let ctor_evs = ctx.take_log();
    let f = match feed(ctx, obj.as_mut(), &data, &pieces, fill) {
        Ok(f) => f,
        Err(p) => return ctx.panic_violation(&name, &p),
    };
    bmv_core::spy::log_stop();

    let (want, want_state) = model_blk(ctx.rc.as_ref(), fam, dir, &iv, &data);
    if f.out != want {
        let det = diff_desc("output vs recurrence", &f.out, &want, d.bs);
        return ctx.violation(&format!("{}/output/{}", ctx.prop, name), det);
    }
    // chaining value after every piece boundary (the model is continued from its own chaining
    // value, which is what "chaining value" means in the definition: linear cost)
    let mut off = 0;
    let mut model_state = iv.clone();
    for (k, (pn, _)) in pieces.iter().enumerate() {
        let start = off;
        off += pn * d.bs;
        let (_, ws) = model_blk(ctx.rc.as_ref(), fam, dir, &model_state, &data[start..off]);
        model_state = ws.clone();
        if let Some(st) = &f.states[k] {
            if st != &ws {
                let det = format!("after piece {} ({} blocks fed): {}", k, off / d.bs, diff_desc("iv_state vs recurrence", st, &ws, d.bs));
                return ctx.violation(&format!("{}/state/{}", ctx.prop, name), det);
            }
        }
    }
    let _ = want_state;
    if !f.canaries_ok {
        return ctx.violation(&format!("{}/canary/{}", ctx.prop, name), "bytes outside the caller's buffers were modified".into());
    }
    if !f.input_untouched {
        return ctx.violation(&format!("{}/input-modified/{}", ctx.prop, name), "a read-only input buffer changed".into());
    }

    // what crossed the mode/cipher boundary. Only what the definition itself forces is
    // demanded: the values the recurrence needs must have been presented to the cipher in the
    // direction the definition names (extra calls are tolerated). The *order* is demanded only
    // where the data dependency forces it (encryptors and OFB: the next cipher input does not
    // exist before the previous output); a decryptor knows every ciphertext block up front and
    // may hand them to the cipher in any order (back to front, batches aligned to the end, ...).
    if ctx.cfg.spied {
        // (cipher calls made during construction count: *when* E(IV) is computed - eagerly in the
        // constructor or lazily at first use - is not part of any mode's definition)
        let mut all: Vec<Ev> = Vec::new();
        all.extend(ctor_evs.iter().cloned());
        all.extend(f.evs.iter().flatten().cloned());
        let want_dir = match (fam, dir) {
            (Family::Cbc | Family::Pcbc | Family::Ige, Direction::Dec) => Dir::D,
            _ => Dir::E,
        };
        if matches!(fam, Family::Cfb | Family::Cfb8 | Family::OfbBlk) {
            if let Some(bad) = all.iter().find(|e| e.dir != Dir::E) {
                return ctx.violation(
                    &format!("{}/direction/{}", ctx.prop, name),
                    format!("cipher used in direction {:?} while processing data (input {})", bad.dir, hex_short(&bad.inp)),
                );
            }
        }
        let mut expected: Vec<Vec<u8>> = Vec::new();
        match fam {
            Family::Cfb8 => {
                let mut reg = iv.clone();
                for i in 0..n {
                    expected.push(reg.clone());
                    let cbyte = if dir == Direction::Enc { f.out[i] } else { data[i] };
                    reg.remove(0);
                    reg.push(cbyte);
                }
            }
            Family::OfbBlk => {
                let mut o = iv.clone();
                for _ in 0..n {
                    expected.push(o.clone());
                    let mut t = o.clone();
                    ctx.rc.e(&mut t);
                    o = t;
                }
            }
            Family::Cfb => {
                // E(IV), E(C_1), ... E(C_{n-1}) are needed (E(C_n) may or may not be computed yet)
                if n >= 1 {
                    expected.push(iv.clone());
                }
                for i in 0..n.saturating_sub(1) {
                    let c = if dir == Direction::Enc { &f.out } else { &data };
                    expected.push(c[i * cb..(i + 1) * cb].to_vec());
                }
            }
            _ => {
                for i in 0..n {
                    expected.push(expected_cipher_input(fam, dir, &iv, &data, &f.out, i, cb).unwrap());
                }
            }
        }
        let order_forced = dir == Direction::Enc || fam == Family::OfbBlk;
        let presented: std::collections::HashSet<&[u8]> =
            if order_forced { Default::default() } else { all.iter().filter(|e| e.dir == want_dir).map(|e| e.inp.as_slice()).collect() };
        let mut pos = 0;
        for (i, want_in) in expected.iter().enumerate() {
            let found = if order_forced {
                all[pos..].iter().position(|e| e.dir == want_dir && &e.inp == want_in).map(|k| pos += k + 1).is_some()
            } else {
                presented.contains(want_in.as_slice())
            };
            match found {
                true => {}
                false => {
                    return ctx.violation(
                        &format!("{}/cipher-input/{}", ctx.prop, name),
                        format!(
                            "step {}: the recurrence needs {:?}({}) but the cipher was never asked for it{}; {} cipher calls observed",
                            i,
                            want_dir,
                            hex_short(want_in),
                            if order_forced { " (in order)" } else { "" },
                            all.len()
                        ),
                    );
                }
            }
        }
        for call in &f.evs {
            let (par, tail, _) = batch_shape(call);
            if par > 0 {
                ctx.st.count(&format!("par-events.{}", name));
            }
            if tail > 0 {
                ctx.st.count(&format!("tail-events.{}", name));
            }
        }
    }
    ctx.st.count(&format!("ok.{}", name));
    if dir == Direction::Dec {
        ctx.st.count(&format!("arbitrary-ciphertext.{}", name));
    }
    if n >= 2 {
        ctx.nontrivial = true;
        ctx.cell(format!("{}|{}|{}|{}", name, ctx.cfg.name, len_class(n, w), sc));
    }
    let _ = lc;
}
