//! C12 — in-place and buffer-to-buffer operation give identical results, whatever the
//! output buffer contained beforehand; the chaining state left behind is the same. (relative)

use super::common::*;
use crate::ctx::{ALL_FILLS, Canary, Ctx, Fill, diff_desc};
use crate::wl;
use bmv_core::subj::*;
use bmv_core::util::{J, guard, hex_short};

pub fn run(ctx: &mut Ctx) {
    match ctx.rng.below(14) {
        0..=4 => blk(ctx),
        5..=6 => padded(ctx),
        7 => oneshot(ctx),
        8..=9 => stream(ctx),
        10 => core(ctx),
        _ => cts(ctx),
    }
}

const FAMS: [Family; 6] = [Family::Cbc, Family::Pcbc, Family::Ige, Family::Cfb, Family::Cfb8, Family::OfbBlk];

fn nonzero_fill(ctx: &mut Ctx) -> Fill {
    *ctx.rng.pick(&[Fill::Ones, Fill::Random, Fill::CopyOfInput, Fill::Complement])
}

fn blk(ctx: &mut Ctx) {
    let fam = *ctx.rng.pick(&FAMS);
    let dir = *ctx.rng.pick(&[Direction::Enc, Direction::Dec]);
    let Some(d) = ctx.cfg.blk(fam, dir).cloned() else { return };
    let name = subj_name(&d);
    ctx.subject(&name);
    let w = ctx.cfg.par;
    let (iv, _) = mode_iv(ctx, d.iv_len);
    let n = if fam == Family::Cfb8 { wl::nbytes(&mut ctx.rng, ctx.cfg.bs, w, ctx.tier).0.min(200) } else { wl::nblocks(&mut ctx.rng, w, d.bs, ctx.tier).0 };
    let (data, dc) = mode_data(ctx, n * d.bs);
    let (sizes, sc) = wl::schedule(&mut ctx.rng, n, w);
    // the same schedule, once with in-place kinds and once with their b2b twins
    let ip_kinds = [BKind::BlockIp, BKind::BlocksIp, BKind::BlocksInoutIp, BKind::BackendIp, BKind::ConcBlocks];
    let pieces_ip: Vec<(usize, BKind)> = sizes.iter().map(|&k| (k, *ctx.rng.pick(&ip_kinds))).collect();
    let pieces_b2b: Vec<(usize, BKind)> = pieces_ip
        .iter()
        .map(|&(k, kind)| {
            let t = match kind {
                BKind::BlockIp => *ctx.rng.pick(&[BKind::BlockB2b, BKind::BlockInout]),
                BKind::BlocksIp => BKind::BlocksB2b,
                BKind::BackendIp => BKind::BackendInout,
                BKind::ConcBlocks => BKind::ConcBlocksB2b,
                _ => BKind::BlocksInoutB2b,
            };
            (k, t)
        })
        .collect();
    let f1 = nonzero_fill(ctx);
    let f2 = *ctx.rng.pick(&ALL_FILLS);
    ctx.note("iv", J::s(hex_short(&iv)));
    ctx.note("data", J::s(hex_short(&data)));
    ctx.note("data_class", J::s(dc));
    ctx.note("inplace_schedule", pieces_json(&pieces_ip));
    ctx.note("b2b_schedule", pieces_json(&pieces_b2b));
    ctx.note("prefills", J::s(format!("{},{}", f1.name(), f2.name())));
    let (Ok(mut a), Ok(mut b1), Ok(mut b2)) = (mk_blk(ctx, &d, Ctor::New, &iv), mk_blk(ctx, &d, Ctor::New, &iv), mk_blk(ctx, &d, Ctor::New, &iv)) else { return };
    let ra = feed(ctx, a.as_mut(), &data, &pieces_ip, Fill::Zero);
    let rb1 = feed(ctx, b1.as_mut(), &data, &pieces_b2b, f1);
    let rb2 = feed(ctx, b2.as_mut(), &data, &pieces_b2b, f2);
    let (ra, rb1, rb2) = match (ra, rb1, rb2) {
        (Ok(x), Ok(y), Ok(z)) => (x, y, z),
        (Err(_), Err(_), Err(_)) => {
            ctx.st.count("vacuous.all-panic");
            return;
        }
        (a, b, c) => {
            let which: Vec<&str> = [("in-place", a.is_err()), ("b2b#1", b.is_err()), ("b2b#2", c.is_err())].iter().filter(|x| x.1).map(|x| x.0).collect();
            return ctx.violation(&format!("C12/panic-one-side/{}", name), format!("only {:?} panicked", which));
        }
    };
    for (label, rb) in [("prefill#1", &rb1), ("prefill#2", &rb2)] {
        if rb.out != ra.out {
            let det = format!("{} ({}): {}", label, if label == "prefill#1" { f1.name() } else { f2.name() }, diff_desc("b2b output vs in-place output", &rb.out, &ra.out, d.bs));
            return ctx.violation(&format!("C12/output/{}", name), det);
        }
        if rb.states != ra.states {
            return ctx.violation(&format!("C12/state/{}", name), format!("{}: iv_state after some piece differs between b2b and in-place", label));
        }
        if !rb.input_untouched {
            return ctx.violation(&format!("C12/input-modified/{}", name), "the read-only input of a b2b call changed".into());
        }
        if !rb.canaries_ok {
            return ctx.violation(&format!("C12/canary/{}", name), "write outside the buffers".into());
        }
    }
    ctx.st.count(&format!("ok.{}", name));
    ctx.st.count(&format!("nonzero-prefill.{}", name));
    if n >= 1 {
        ctx.nontrivial = true;
        ctx.cell(format!("{}|{}|{}|{}|{}", name, ctx.cfg.name, len_class(n, w), sc, f1.name()));
    }
}

fn padded(ctx: &mut Ctx) {
    let fam = *ctx.rng.pick(&FAMS);
    let dir = *ctx.rng.pick(&[Direction::Enc, Direction::Dec]);
    let (Some(de), Some(d)) = (ctx.cfg.blk(fam, Direction::Enc).cloned(), ctx.cfg.blk(fam, dir).cloned()) else { return };
    let pad = *ctx.rng.pick(&[Pad::Pkcs7, Pad::Iso7816, Pad::AnsiX923, Pad::NoPadding]);
    let name = format!("{}/padded", subj_name(&d));
    ctx.subject(&name);
    let b = d.bs;
    let (iv, _) = mode_iv(ctx, d.iv_len);
    let (mut len, rc) = wl::nbytes(&mut ctx.rng, b.max(2), ctx.cfg.par, ctx.tier);
    if fam == Family::Cfb8 {
        len = len.min(200);
    }
    if pad == Pad::NoPadding {
        len -= len % b;
    }
    let (msg, _) = mode_data(ctx, len);
    ctx.note("iv", J::s(hex_short(&iv)));
    ctx.note("msg", J::s(hex_short(&msg)));
    ctx.note("padding", J::s(pad.name()));
    // input of the operation under test: the message (enc) or an honest ciphertext (dec)
    let input: Vec<u8> = if dir == Direction::Enc {
        msg.clone()
    } else {
        let Ok(e) = mk_blk(ctx, &de, Ctor::New, &iv) else { return };
        let mut room = vec![0u8; len + 2 * b];
        match guard(|| e.padded(pad, Form::B2b, &msg, &mut room)) {
            Ok(Ok(c)) => c,
            _ => return,
        }
    };
    let room = input.len() + 2 * b;
    let mut results: Vec<(Form, Fill, Result<Vec<u8>, ()>)> = Vec::new();
    for form in [Form::InPlace, Form::B2b, Form::Inout, Form::B2b] {
        let Ok(o) = mk_blk(ctx, &d, Ctor::New, &iv) else { return };
        let fill = if form == Form::InPlace { Fill::Zero } else { nonzero_fill(ctx) };
        let size = if form == Form::Inout && dir == Direction::Dec { input.len() } else { room };
        let pre = fill.make(&mut ctx.rng, &input, size);
        let mut out = Canary::from(&pre);
        ctx.st.api_calls += 1;
        match guard(|| o.padded(pad, form, &input, out.data_mut())) {
            Ok(r) => {
                if !out.intact() {
                    return ctx.violation(&format!("C12/canary/{}", name), "write outside the buffer".into());
                }
                results.push((form, fill, r));
            }
            Err(p) => return ctx.panic_violation(&name, &p),
        }
    }
    let base = results[0].2.clone();
    for (form, fill, r) in &results[1..] {
        if *r != base {
            let det = match (r, &base) {
                (Ok(x), Ok(y)) => diff_desc("b2b result vs in-place result", x, y, b),
                _ => format!("{} gave {:?} but in-place gave {:?}", form.name(), r.as_ref().map(|v| v.len()), base.as_ref().map(|v| v.len())),
            };
            return ctx.violation(&format!("C12/output/{}", name), format!("{} with prefill {}: {}", form.name(), fill.name(), det));
        }
    }
    ctx.st.count(&format!("ok.{}", name));
    if len >= b {
        ctx.nontrivial = true;
        ctx.cell(format!("{}|{}|{}|{}", name, ctx.cfg.name, pad.name(), rc));
    }
}

fn oneshot(ctx: &mut Ctx) {
    let fam = *ctx.rng.pick(&[Family::Cfb, Family::Cfb8]);
    let dir = *ctx.rng.pick(&[Direction::Enc, Direction::Dec]);
    let Some(d) = ctx.cfg.blk(fam, dir).cloned() else { return };
    let name = format!("{}/oneshot", subj_name(&d));
    ctx.subject(&name);
    let b = ctx.cfg.bs;
    let (iv, _) = mode_iv(ctx, d.iv_len);
    let (mut len, rc) = wl::nbytes(&mut ctx.rng, b, ctx.cfg.par, ctx.tier);
    if fam == Family::Cfb8 {
        len = len.min(300);
    }
    let (msg, _) = mode_data(ctx, len);
    ctx.note("iv", J::s(hex_short(&iv)));
    ctx.note("msg", J::s(hex_short(&msg)));
    let mut outs = Vec::new();
    for form in [Form::InPlace, Form::B2b, Form::Inout] {
        let Ok(o) = mk_blk(ctx, &d, Ctor::New, &iv) else { return };
        let fill = if form == Form::InPlace { Fill::Zero } else { nonzero_fill(ctx) };
        let pre = fill.make(&mut ctx.rng, &msg, len);
        let mut out = Canary::from(&pre);
        let inp = Canary::from(&msg);
        ctx.st.api_calls += 1;
        match guard(|| o.oneshot(form, inp.data(), out.data_mut())) {
            Ok(Some(true)) => {}
            Ok(_) => return,
            Err(p) => return ctx.panic_violation(&name, &p),
        }
        if !out.intact() || !inp.intact() || inp.data() != &msg[..] {
            return ctx.violation(&format!("C12/input-modified/{}", name), "input or surrounding bytes changed".into());
        }
        outs.push((form, fill, out.data().to_vec()));
    }
    for (form, fill, o) in &outs[1..] {
        if *o != outs[0].2 {
            let det = format!("{} with prefill {}: {}", form.name(), fill.name(), diff_desc("b2b vs in-place", o, &outs[0].2, b));
            return ctx.violation(&format!("C12/output/{}", name), det);
        }
    }
    ctx.st.count(&format!("ok.{}", name));
    if len > 0 {
        ctx.nontrivial = true;
        ctx.cell(format!("{}|{}|{}", name, ctx.cfg.name, rc));
    }
}

fn stream(ctx: &mut Ctx) {
    if ctx.cfg.streams.is_empty() {
        return;
    }
    let d = ctx.rng.pick(&ctx.cfg.streams).clone();
    let name = format!("{}/stream", d.flavor.name());
    ctx.subject(&name);
    let b = ctx.cfg.bs;
    let (iv, _) = stream_iv(ctx, d.flavor, b);
    let (len, rc) = wl::nbytes(&mut ctx.rng, b, ctx.cfg.par, ctx.tier);
    let (msg, _) = mode_data(ctx, len);
    let (sched, sc) = wl::byte_schedule(&mut ctx.rng, len, b);
    ctx.note("iv", J::s(hex_short(&iv)));
    ctx.note("msg", J::s(hex_short(&msg)));
    ctx.note("pieces", J::Arr(sched.iter().map(|x| J::i(*x as i64)).collect()));
    let key = ctx.key.clone();
    let fills: Vec<Fill> = sched.iter().map(|_| nonzero_fill(ctx)).collect();
    let b2b_forms: Vec<Form> = sched.iter().map(|_| *ctx.rng.pick(&[Form::B2b, Form::Inout])).collect();
    let mut frng = ctx.rng.clone();
    let r = guard(|| -> Result<(Vec<u8>, Vec<u8>, bool), String> {
        let mut a = (d.mk)(Ctor::New, &key, &iv).map_err(|_| "ctor")?;
        let mut bb = (d.mk)(Ctor::New, &key, &iv).map_err(|_| "ctor")?;
        let mut oa = Vec::new();
        let mut ob = Vec::new();
        let mut off = 0;
        let mut same_state = true;
        for (j, &k) in sched.iter().enumerate() {
            let piece = &msg[off..off + k];
            let mut x = vec![0u8; k];
            if !a.try_apply(Form::InPlace, piece, &mut x) {
                return Err("in-place apply failed".into());
            }
            let pre = fills[j].make(&mut frng, piece, k);
            let mut y = Canary::from(&pre);
            let inp = Canary::from(piece);
            if !bb.try_apply(b2b_forms[j], inp.data(), y.data_mut()) {
                return Err("b2b apply failed".into());
            }
            if !y.intact() || !inp.intact() || inp.data() != piece {
                return Err("input modified or write outside the output".into());
            }
            oa.extend_from_slice(&x);
            ob.extend_from_slice(y.data());
            off += k;
            same_state &= a.try_current_pos(SeekTy::U128) == bb.try_current_pos(SeekTy::U128) && a.core_iv_state() == bb.core_iv_state() && a.core_block_pos() == bb.core_block_pos();
        }
        Ok((oa, ob, same_state))
    });
    ctx.st.api_calls += 2 * sched.len() as u64;
    match r {
        Err(p) => ctx.panic_violation(&name, &p),
        Ok(Err(e)) => ctx.violation(&format!("C12/err/{}", name), e),
        Ok(Ok((oa, ob, same))) => {
            if oa != ob {
                let det = diff_desc("b2b output vs in-place output", &ob, &oa, b);
                return ctx.violation(&format!("C12/output/{}", name), det);
            }
            if !same {
                return ctx.violation(&format!("C12/state/{}", name), "position / core state differ between the in-place and the b2b instance".into());
            }
            ctx.st.count(&format!("ok.{}", name));
            if len > 0 {
                ctx.nontrivial = true;
                ctx.cell(format!("{}|{}|{}|{}", name, ctx.cfg.name, rc, sc));
            }
        }
    }
}

fn core(ctx: &mut Ctx) {
    if ctx.cfg.cores.is_empty() {
        return;
    }
    let d = ctx.rng.pick(&ctx.cfg.cores).clone();
    let name = format!("{}/core", d.flavor.name());
    ctx.subject(&name);
    let b = ctx.cfg.bs;
    let w = ctx.cfg.par;
    let (iv, _) = stream_iv(ctx, d.flavor, b);
    let (n, _) = wl::nblocks(&mut ctx.rng, w, b, ctx.tier);
    let tail = if ctx.rng.coin() { ctx.rng.below(b) } else { 0 };
    let (msg, _) = mode_data(ctx, n * b + tail);
    let (sizes, sc) = wl::schedule(&mut ctx.rng, n, w);
    let fill = nonzero_fill(ctx);
    ctx.note("iv", J::s(hex_short(&iv)));
    ctx.note("msg", J::s(hex_short(&msg)));
    let key = ctx.key.clone();
    let mut frng = ctx.rng.clone();
    let b2b_ops: Vec<CoreOp> = sizes.iter().map(|_| *ctx.rng.pick(&[CoreOp::ApplyBlocksInout, CoreOp::ApplyBlockInout])).collect();
    let r = guard(|| {
        let mut a = (d.mk)(Ctor::New, &key, &iv).unwrap();
        let mut bb = (d.mk)(Ctor::New, &key, &iv).unwrap();
        let mut oa = Vec::new();
        let mut ob = Vec::new();
        let mut off = 0;
        for (j, &k) in sizes.iter().enumerate() {
            let piece = &msg[off..off + k * b];
            let mut x = vec![0u8; k * b];
            a.op(CoreOp::ApplyBlocks, piece, &mut x);
            let mut y = fill.make(&mut frng, piece, k * b);
            bb.op(b2b_ops[j], piece, &mut y);
            oa.extend_from_slice(&x);
            ob.extend_from_slice(&y);
            off += k * b;
        }
        let st = (a.get_block_pos(), a.iv_state()) == (bb.get_block_pos(), bb.iv_state());
        // the consuming partial call on what is left (incl. a trailing partial block)
        let rest = &msg[off..];
        let mut x = vec![0u8; rest.len()];
        let mut y = fill.make(&mut frng, rest, rest.len());
        let ra = a.partial(false, rest, &mut x);
        let rb = bb.partial(true, rest, &mut y);
        oa.extend_from_slice(&x);
        ob.extend_from_slice(&y);
        (oa, ob, st, ra, rb)
    });
    ctx.st.api_calls += 2 * sizes.len() as u64 + 2;
    match r {
        Err(p) => ctx.panic_violation(&name, &p),
        Ok((oa, ob, st, ra, rb)) => {
            if ra != rb {
                return ctx.violation(&format!("C12/output/{}", name), "partial: in-place and b2b verdicts differ".into());
            }
            if ra && oa != ob {
                let det = diff_desc("b2b output vs in-place output", &ob, &oa, b);
                return ctx.violation(&format!("C12/output/{}", name), det);
            }
            if !st {
                return ctx.violation(&format!("C12/state/{}", name), "core state differs".into());
            }
            ctx.st.count(&format!("ok.{}", name));
            if n >= 1 {
                ctx.nontrivial = true;
                ctx.cell(format!("{}|{}|{}|{}|tail={}", name, ctx.cfg.name, len_class(n, w), sc, tail > 0));
            }
        }
    }
}

fn cts(ctx: &mut Ctx) {
    if ctx.cfg.cts.is_empty() {
        return;
    }
    let d = ctx.rng.pick(&ctx.cfg.cts).clone();
    let dir = *ctx.rng.pick(&[Direction::Enc, Direction::Dec]);
    let name = format!("{}/{}", d.var.name(), dir.name());
    ctx.subject(&name);
    let b = ctx.cfg.bs;
    let (iv, _) = mode_iv(ctx, b);
    let (extra, rc) = wl::nbytes(&mut ctx.rng, b, ctx.cfg.par, ctx.tier);
    let len = (b + extra).min(wl::MAX_LONG_BYTES);
    let (data, _) = mode_data(ctx, len);
    ctx.note("iv", J::s(hex_short(&iv)));
    ctx.note("data", J::s(hex_short(&data)));
    let key = ctx.key.clone();
    let mut outs: Vec<(Form, Fill, Vec<u8>)> = Vec::new();
    for form in [Form::InPlace, Form::B2b, Form::Inout, Form::B2b] {
        let fill = if form == Form::InPlace { Fill::Zero } else { nonzero_fill(ctx) };
        let pre = fill.make(&mut ctx.rng, &data, len);
        let mut out = Canary::from(&pre);
        let inp = Canary::from(&data);
        let Ok(Ok(o)) = guard(|| (d.mk)(Ctor::New, &key, &iv)) else { return };
        ctx.st.api_calls += 1;
        match guard(|| o.run(dir, form, inp.data(), out.data_mut())) {
            Ok(true) => {}
            Ok(false) => return,
            Err(p) => return ctx.panic_violation(&name, &p),
        }
        if !out.intact() || !inp.intact() || inp.data() != &data[..] {
            return ctx.violation(&format!("C12/input-modified/{}", name), "input or surrounding bytes changed".into());
        }
        outs.push((form, fill, out.data().to_vec()));
    }
    for (form, fill, o) in &outs[1..] {
        if *o != outs[0].2 {
            let det = format!("{} with prefill {}: {}", form.name(), fill.name(), diff_desc("b2b vs in-place", o, &outs[0].2, b));
            return ctx.violation(&format!("C12/output/{}", name), det);
        }
    }
    ctx.st.count(&format!("ok.{}", name));
    ctx.nontrivial = true;
    ctx.cell(format!("{}|{}|{}|n={}", name, ctx.cfg.name, rc, (len / b).min(4)));
}
