//! C10 — seeking and position reporting are coherent with the keystream (CTR, BelT-CTR).
//! A shadow position is advanced by the history {seek, apply, current_pos}; bytes produced
//! are compared with the object's own keystream (fresh instance from 0 when near, a second
//! instance that seeks a little earlier and reads up to the position when far) and, if the
//! C04/C06 gate passes on this tree, with the definitional keystream.

use super::common::*;
use crate::ctx::{ALL_FILLS, Canary, Ctx, diff_desc};
use crate::model;
use crate::wl;
use bmv_core::subj::*;
use bmv_core::util::{J, guard, hex_short};

pub fn run(ctx: &mut Ctx) {
    let fls: Vec<Flavor> = ctx.cfg.streams.iter().map(|d| d.flavor).filter(|f| f.seekable()).collect();
    if fls.is_empty() {
        ctx.st.count("skipped.no-seekable-type-for-this-block-size");
        return;
    }
    let fl = super::common::pick_flavor(ctx, &fls);
    history(ctx, fl);
}

#[derive(Clone, Copy, Debug, PartialEq, Eq)]
struct Pos {
    blk: u128,
    off: usize,
}
impl Pos {
    fn bytes(self, b: usize) -> Option<u128> {
        self.blk.checked_mul(b as u128)?.checked_add(self.off as u128)
    }
    fn add(self, n: usize, b: usize) -> Pos {
        let t = self.off + n;
        Pos { blk: self.blk + (t / b) as u128, off: t % b }
    }
    fn from_bytes(p: u128, b: usize) -> Pos {
        Pos { blk: p / b as u128, off: (p % b as u128) as usize }
    }
    /// bytes between self and the end of the keystream (saturating at usize::MAX)
    fn room(self, limit: u128, b: usize) -> usize {
        if self.blk >= limit {
            return 0;
        }
        let blocks = limit - self.blk;
        let r = blocks.saturating_mul(b as u128).saturating_sub(self.off as u128);
        usize::try_from(r).unwrap_or(usize::MAX)
    }
}

/// check try_current_pos in every integer type against the shadow
fn check_pos(ctx: &mut Ctx, name: &str, obj: &dyn StreamObj, sh: Pos, b: usize) -> bool {
    let p = sh.bytes(b);
    for ty in ALL_SEEKTY {
        ctx.st.api_calls += 1;
        let r = match guard(|| obj.try_current_pos(ty)) {
            Ok(Some(r)) => r,
            Ok(None) => return true,
            Err(pn) => {
                ctx.panic_violation(&format!("{}/try_current_pos", name), &pn);
                return false;
            }
        };
        ctx.st.count(&format!("pos-type.{}", ty.name()));
        match (r, p) {
            (Ok(v), Some(p)) if v == p => {}
            (Ok(v), _) => {
                ctx.violation(
                    &format!("C10/current-pos/{}", name),
                    format!("try_current_pos::<{}>() = {} but {} keystream bytes precede the next byte (block {}, offset {})", ty.name(), v, p.map(|x| x.to_string()).unwrap_or(">u128".into()), sh.blk, sh.off),
                );
                return false;
            }
            (Err(()), Some(p)) if p.checked_add(b as u128).map(|e| e <= ty.max_val()).unwrap_or(false) => {
                ctx.violation(
                    &format!("C10/current-pos-err/{}", name),
                    format!("try_current_pos::<{}>() = Err although position {} fits", ty.name(), p),
                );
                return false;
            }
            (Err(()), Some(p)) if p <= ty.max_val() => {
                // the one-block corner T::MAX - b < p <= T::MAX: accepted either way
                ctx.st.count("pos-corner-err-tolerated");
            }
            (Err(()), _) => {
                ctx.st.count("pos-overflow-reported");
            }
        }
    }
    true
}

fn history(ctx: &mut Ctx, fl: Flavor) {
    let d = ctx.cfg.stream(fl).unwrap().clone();
    let name = format!("{}/stream", fl.name());
    ctx.subject(&name);
    let b = ctx.cfg.bs;
    let limit = model::limit_blocks(fl).unwrap();
    let (iv, ivc) = stream_iv(ctx, fl, b);
    let key = ctx.key.clone();
    ctx.note("flavor", J::s(fl.name()));
    ctx.note("iv", J::s(hex_short(&iv)));

    // definitional gate (C04/C06 on a few near blocks): may the model be used as reference?
    let gate = {
        let r = guard(|| {
            let mut g = (d.mk)(Ctor::New, &key, &iv).ok()?;
            let mut o = vec![0u8; 3 * b];
            let z = vec![0u8; 3 * b];
            if !g.try_apply(Form::B2b, &z, &mut o) {
                return None;
            }
            Some(o)
        });
        match r {
            Ok(Some(o)) => o == model::ks_bytes_at(ctx.rc.as_ref(), fl, &iv, 0, 0, 3 * b),
            _ => false,
        }
    };
    if !gate {
        ctx.st.count("gate-failed.definitional-subcheck-skipped");
    }

    // start: fresh (position 0) or far via core.set_block_pos + from_core
    let mut sh = Pos { blk: 0, off: 0 };
    let far_start = d.mk_at.is_some() && ctx.rng.chance(1, 3);
    let mut obj = if far_start {
        let k = ctx.rng.below(6) as u128;
        let cands = [
            (1u128 << 16) - 2 + k,
            (1u128 << 32) - 3 + k,
            (1u128 << 32) + k,
            (1u128 << 64) - 3 + k,
            (1u128 << 64) + 7 + k,
            limit.saturating_sub(40 + k),
            (u128::MAX / b as u128).saturating_sub(k),
            (u128::MAX / b as u128) + 1 + k,
            crate::wl::limb_u128(&mut ctx.rng),
            crate::wl::limb_u128(&mut ctx.rng) % limit.max(1),
        ];
        let i = (*ctx.rng.pick(&cands)).min(limit.saturating_sub(45));
        sh = Pos { blk: i, off: 0 };
        match guard(|| (d.mk_at.unwrap())(&key, &iv, i)) {
            Ok(o) => o,
            Err(p) => return ctx.panic_violation(&format!("{}/ctor", name), &p),
        }
    } else {
        match guard(|| (d.mk)(Ctor::New, &key, &iv)) {
            Ok(Ok(o)) => o,
            _ => return,
        }
    };
    ctx.note("start_block", J::s(sh.blk.to_string()));
    if !check_pos(ctx, &name, obj.as_ref(), sh, b) {
        return;
    }
    let nops = match ctx.tier {
        crate::ctx::Tier::Slice => 6,
        // rarely: hundreds of operations on one object
        _ => if ctx.rng.chance(1, 60) { ctx.rng.range(150, 400) } else { ctx.rng.range(3, 24) },
    };
    let mut ops: Vec<J> = Vec::new();
    let mut backward = false;
    let mut inside_after_partial = false;
    let mut far = sh.bytes(b).map(|p| p >= (1u128 << 32)).unwrap_or(true);
    for _ in 0..nops {
        let room = sh.room(limit, b);
        match ctx.rng.below(10) {
            0..=3 => {
                // ---------------- seek(q), q in [0, end]
                let cur = sh.bytes(b);
                let k = ctx.rng.below(3 * b + 2) as u128;
                let end_bytes = limit.checked_mul(b as u128);
                let mut cands: Vec<u128> = vec![0, k, b as u128 - 1, (b as u128) * (1 + k % 5), (1u128 << 32) - 1 - k, (1u128 << 32) + k, (1u128 << 16) * b as u128 + k];
                if let Some(c) = cur {
                    cands.push(c.saturating_sub(k));
                    cands.push(c.saturating_sub(1));
                    cands.push(c);
                    cands.push(c.saturating_add(k));
                    cands.push(c - c % b as u128);
                }
                if let Some(e) = end_bytes {
                    cands.push(e);
                    cands.push(e.saturating_sub(k));
                    cands.push(e.saturating_sub(b as u128 * (1 + k % 4)));
                } else {
                    cands.push(u128::MAX - k);
                    cands.push((1u128 << 64) * b as u128 - k);
                    cands.push((1u128 << 64) + k);
                }
                cands.push(crate::wl::limb_u128(&mut ctx.rng));
                cands.push(crate::wl::limb_u128(&mut ctx.rng) >> 64);
                let mut q = *ctx.rng.pick(&cands);
                if let Some(e) = end_bytes {
                    q = q.min(e);
                }
                // a type the value fits in
                let tys: Vec<SeekTy> = ALL_SEEKTY.iter().cloned().filter(|t| q <= t.max_val()).collect();
                let ty = *ctx.rng.pick(&tys);
                ops.push(J::s(format!("seek::<{}>({})", ty.name(), q)));
                ctx.note("ops", J::Arr(ops.clone()));
                ctx.st.api_calls += 1;
                match guard(|| obj.try_seek(ty, q)) {
                    Ok(Some(true)) => {}
                    Ok(Some(false)) => {
                        return ctx.violation(&format!("C10/seek-err/{}", name), format!("try_seek::<{}>({}) failed although the offset lies within [0, keystream end]", ty.name(), q));
                    }
                    Ok(None) => return,
                    Err(p) => return ctx.panic_violation(&format!("{}/try_seek", name), &p),
                }
                if let Some(c) = cur {
                    if q < c {
                        backward = true;
                    }
                }
                if sh.off != 0 && q % b as u128 != 0 {
                    inside_after_partial = true;
                }
                sh = Pos::from_bytes(q, b);
                if q >= (1u128 << 32) {
                    far = true;
                }
                ctx.st.count(&format!("seek-type.{}", ty.name()));
            }
            4..=8 => {
                // ---------------- apply(n), staying inside the keystream
                let w = ctx.cfg.par.max(1);
                let mut n = match ctx.rng.below(9) {
                    0 => 0,
                    1 => 1,
                    2 => b - 1,
                    3 => b,
                    4 => b + 1,
                    // whole backend batches (+ tail) in one call
                    5 => w * b + ctx.rng.below(b),
                    6 => (2 * w + 1) * b + ctx.rng.below(b),
                    7 if ctx.rng.chance(1, 20) => 66 * b + 3,
                    _ => ctx.rng.range(0, 5 * b),
                };
                n = n.min(room).min(wl::MAX_LONG_BYTES);
                let (data, _) = mode_data(ctx, n);
                let form = *ctx.rng.pick(&FORMS3);
                let fill = *ctx.rng.pick(&ALL_FILLS);
                let pre = fill.make(&mut ctx.rng, &data, n);
                let mut out = Canary::from(&pre);
                ops.push(J::s(format!("apply({} bytes, {})", n, form.name())));
                ctx.note("ops", J::Arr(ops.clone()));
                ctx.st.api_calls += 1;
                match guard(|| obj.try_apply(form, &data, out.data_mut())) {
                    Ok(true) => {}
                    Ok(false) => {
                        return ctx.violation(&format!("C10/apply-err/{}", name), format!("{} bytes at block {} offset {} refused although {} bytes of keystream remain", n, sh.blk, sh.off, room));
                    }
                    Err(p) => return ctx.panic_violation(&format!("{}/apply", name), &p),
                }
                let ks: Vec<u8> = data.iter().zip(out.data()).map(|(a, c)| a ^ c).collect();
                // (a) near: the object's own keystream generated from offset 0
                if let Some(p) = sh.bytes(b) {
                    if p.saturating_add(n as u128) <= 4096 && n > 0 {
                        let p = p as usize;
                        let r = guard(|| {
                            let mut f = (d.mk)(Ctor::New, &key, &iv).unwrap();
                            let z = vec![0u8; p + n];
                            let mut o = vec![0u8; p + n];
                            assert!(f.try_apply(Form::B2b, &z, &mut o));
                            o
                        });
                        if let Ok(o) = r {
                            if o[p..] != ks[..] {
                                let det = format!("after {:?}: {}", ops.last(), diff_desc("bytes at [p,p+n) vs keystream generated from offset 0", &ks, &o[p..], b));
                                return ctx.violation(&format!("C10/keystream-near/{}", name), det);
                            }
                            ctx.st.count("ref.from-zero");
                        }
                    }
                }
                // (b) far: a second instance seeks to p - delta and reads up to p
                if n > 0 {
                    if let Some(p) = sh.bytes(b) {
                        let delta = (ctx.rng.below(2 * b + 1) as u128).min(p);
                        let r = guard(|| {
                            let mut f = (d.mk)(Ctor::New, &key, &iv).unwrap();
                            if f.try_seek(SeekTy::U128, p - delta) != Some(true) {
                                return None;
                            }
                            let z = vec![0u8; delta as usize + n];
                            let mut o = vec![0u8; delta as usize + n];
                            if !f.try_apply(Form::B2b, &z, &mut o) {
                                return None;
                            }
                            Some(o[delta as usize..].to_vec())
                        });
                        match r {
                            Ok(Some(o)) => {
                                if o != ks {
                                    let det = format!("p = {}, delta = {}: {}", p, delta, diff_desc("seek(p) vs seek(p-delta);read(delta)", &ks, &o, b));
                                    return ctx.violation(&format!("C10/keystream-local/{}", name), det);
                                }
                                ctx.st.count("ref.seek-delta");
                            }
                            _ => {}
                        }
                    }
                }
                // (c) definitional keystream, if the gate passed
                if gate && n > 0 {
                    let want = model::ks_bytes_at(ctx.rc.as_ref(), fl, &iv, sh.blk, sh.off, n);
                    if want != ks {
                        let det = format!("block {} offset {}: {}", sh.blk, sh.off, diff_desc("bytes vs definitional keystream", &ks, &want, b));
                        return ctx.violation(&format!("C10/keystream-def/{}", name), det);
                    }
                    ctx.st.count("ref.definitional");
                }
                if !out.intact() {
                    return ctx.violation(&format!("C10/canary/{}", name), "write outside the output".into());
                }
                if sh.off + n > 0 && (sh.off + n) % b != 0 {
                    ctx.st.count("partial-read");
                }
                sh = sh.add(n, b);
            }
            _ => {
                // continue on a clone (where the type is Clone): position and keystream carry over
                if let Ok(Some(c)) = guard(|| obj.clone_box()) {
                    obj = c;
                    ops.push(J::s("clone; continue on the clone"));
                    ctx.st.count("clone-op");
                }
            }
        }
        if !check_pos(ctx, &name, obj.as_ref(), sh, b) {
            return;
        }
        // the core's block position: index of the next block the core will generate
        if let Ok(Some(bp)) = guard(|| obj.core_block_pos()) {
            let want = if sh.off == 0 { sh.blk } else { sh.blk + 1 };
            if bp != want {
                return ctx.violation(&format!("C10/core-block-pos/{}", name), format!("get_core().get_block_pos() = {} but the next unseen block is {}", bp, want));
            }
        }
    }
    ctx.note("ops", J::Arr(ops.clone()));
    ctx.st.count(&format!("ok.{}", name));
    if backward {
        ctx.st.count(&format!("backward-seek.{}", fl.name()));
    }
    if inside_after_partial {
        ctx.st.count(&format!("seek-inside-block-after-partial.{}", fl.name()));
    }
    if far {
        ctx.st.count(&format!("offset>=2^32.{}", fl.name()));
    }
    ctx.nontrivial = ops.len() >= 3;
    if ctx.nontrivial {
        ctx.cell(format!("{}|{}|{}|back={}|inside={}|far={}|farstart={}", name, ctx.cfg.name, ivc, backward, inside_after_partial, far, far_start));
    }
}
