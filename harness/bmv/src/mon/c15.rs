//! C15 — error propagation and data dependence match each mode's definition.
//! (relative / metamorphic: dec(c) vs dec(c xor delta@j))

use super::common::*;
use crate::ctx::{Ctx, Fill};
use crate::wl;
use bmv_core::spy::{self, Dir};
use bmv_core::subj::*;
use bmv_core::util::{J, guard, hex_short, xor};

pub fn run(ctx: &mut Ctx) {
    match ctx.rng.below(12) {
        0..=5 => blk(ctx),
        6..=8 => stream(ctx),
        _ => cfb_bytes(ctx),
    }
}

const FAMS: [Family; 6] = [Family::Cbc, Family::Pcbc, Family::Ige, Family::Cfb, Family::Cfb8, Family::OfbBlk];

fn gen_delta(ctx: &mut Ctx, len: usize) -> (Vec<u8>, &'static str) {
    let mut d = vec![0u8; len];
    let name = match ctx.rng.below(3) {
        0 => {
            let bit = ctx.rng.below(len * 8);
            d[bit / 8] = 1 << (bit % 8);
            "1bit"
        }
        1 => {
            let i = ctx.rng.below(len);
            d[i] = (ctx.rng.below(255) + 1) as u8;
            "1byte"
        }
        _ => {
            ctx.rng.fill(&mut d);
            if d.iter().all(|&x| x == 0) {
                d[0] = 1;
            }
            "block"
        }
    };
    (d, name)
}

fn is_zero(v: &[u8]) -> bool {
    v.iter().all(|&x| x == 0)
}

fn blk(ctx: &mut Ctx) {
    let fam = *ctx.rng.pick(&FAMS);
    // decryptors carry the error-propagation claims; encryptors only causality
    let dir = if ctx.rng.chance(3, 4) { Direction::Dec } else { Direction::Enc };
    let Some(d) = ctx.cfg.blk(fam, dir).cloned() else { return };
    let name = subj_name(&d);
    ctx.subject(&name);
    let cb = ctx.cfg.bs;
    let w = ctx.cfg.par;
    let unit = d.bs; // 1 for CFB-8
    let (iv, _) = mode_iv(ctx, d.iv_len);
    let n = if fam == Family::Cfb8 { ctx.rng.range(1, 4 * cb + 3) } else { wl::nblocks(&mut ctx.rng, w, unit, ctx.tier).0.max(1) };
    let (data, _) = mode_data(ctx, n * unit);
    // position class: first, middle, last
    let (j, jc) = match ctx.rng.below(3) {
        0 => (0, "first"),
        1 => (n - 1, "last"),
        _ => (ctx.rng.below(n), "middle"),
    };
    let (delta, dcname) = gen_delta(ctx, unit);
    let mut data2 = data.clone();
    for (i, x) in delta.iter().enumerate() {
        data2[j * unit + i] ^= x;
    }
    let (pieces, sc) = gen_pieces(ctx, n, w);
    ctx.note("iv", J::s(hex_short(&iv)));
    ctx.note("data", J::s(hex_short(&data)));
    ctx.note("j", J::i(j as i64));
    ctx.note("delta", J::s(hex_short(&delta)));
    ctx.note("schedule", pieces_json(&pieces));
    let (Ok(mut a), Ok(mut bobj)) = (mk_blk(ctx, &d, Ctor::New, &iv), mk_blk(ctx, &d, Ctor::New, &iv)) else { return };
    let (fa, fb) = match (feed(ctx, a.as_mut(), &data, &pieces, Fill::Zero), feed(ctx, bobj.as_mut(), &data2, &pieces, Fill::Ones)) {
        (Ok(x), Ok(y)) => (x, y),
        (Err(_), Err(_)) => return ctx.st.count("vacuous.both-panic"),
        (Err(p), _) | (_, Err(p)) => return ctx.panic_violation(&name, &p),
    };
    let diff = xor(&fa.out, &fb.out);
    let blk = |i: usize| &diff[i * unit..(i + 1) * unit];
    // causality: nothing before j depends on block j
    if let Some(i) = (0..j).find(|&i| !is_zero(blk(i))) {
        return ctx.violation(&format!("C15/causality/{}", name), format!("altering input block {} changed output block {} which comes before it", j, i));
    }
    ctx.st.count(&format!("causality.{}", name));
    if dir == Direction::Enc {
        // for the stream-like block mode OFB the change stays in place also when encrypting
        if fam == Family::OfbBlk {
            if blk(j) != &delta[..] || (j + 1..n).any(|i| !is_zero(blk(i))) {
                return ctx.violation(&format!("C15/support/{}", name), "OFB: a changed input block must flip exactly the same bits of the same output block".into());
            }
        }
        ctx.st.count(&format!("ok.{}", name));
        ctx.nontrivial = n >= 2;
        if n >= 2 {
            ctx.cell(format!("{}|{}|{}|{}|{}|{}", name, ctx.cfg.name, len_class(n, w), jc, dcname, sc));
        }
        return;
    }
    let fail = |ctx: &mut Ctx, what: String| {
        ctx.violation(&format!("C15/support/{}", name), format!("ciphertext block {} of {} altered by {}: {}", j, n, hex_short(&delta), what));
    };
    match fam {
        Family::Cbc => {
            if is_zero(blk(j)) {
                return fail(ctx, "plaintext block j did not change".into());
            }
            if j + 1 < n && blk(j + 1) != &delta[..] {
                return fail(ctx, format!("plaintext block j+1 changed by {} instead of exactly delta", hex_short(blk(j + 1))));
            }
            if let Some(i) = (j + 2..n).find(|&i| !is_zero(blk(i))) {
                return fail(ctx, format!("plaintext block {} (after j+1) changed: no re-synchronisation", i));
            }
        }
        Family::Cfb => {
            if blk(j) != &delta[..] {
                return fail(ctx, format!("plaintext block j changed by {} instead of exactly delta", hex_short(blk(j))));
            }
            if j + 1 < n && is_zero(blk(j + 1)) {
                return fail(ctx, "plaintext block j+1 did not change".into());
            }
            if let Some(i) = (j + 2..n).find(|&i| !is_zero(blk(i))) {
                return fail(ctx, format!("plaintext block {} (after j+1) changed: no re-synchronisation", i));
            }
        }
        Family::Cfb8 => {
            if diff[j] != delta[0] {
                return fail(ctx, format!("plaintext byte j changed by {:02x} instead of exactly delta", diff[j]));
            }
            if let Some(i) = (j + cb + 1..n).find(|&i| diff[i] != 0) {
                return fail(ctx, format!("plaintext byte {} (more than {} bytes after j) changed: no re-synchronisation", i, cb));
            }
            if j + cb + 1 < n {
                ctx.st.count("cfb8.resync-observed");
            }
            // "garbles the following block-size bytes": while byte j sits in the register the
            // keystream byte is first_byte(E(S)) of a *different* S. That some visible byte changes
            // is a statement about diffusion, which only a PRP-like cipher gives: for the real
            // ciphers 8 such bytes are enough (2^-64); the toy cipher is a bijection with slow
            // diffusion in large blocks, so for it the demand is made only when the altered byte is
            // seen through its whole journey across the register (all b following bytes exist,
            // including the steps where it sits next to the byte the mode reads).
            let hi = (j + cb + 1).min(n);
            let seen = hi - (j + 1);
            let demand = seen >= 8 && (ctx.cfg.real || seen == cb);
            if !demand && seen >= 8 {
                ctx.st.count("cfb8.garble-not-demanded(toy cipher, partial view)");
            }
            if demand && diff[j + 1..hi].iter().all(|&x| x == 0) {
                return fail(ctx, format!("none of the {} plaintext bytes after byte j changed: the altered ciphertext byte never entered the shift register", hi - j - 1));
            }
        }
        Family::OfbBlk => {
            if blk(j) != &delta[..] || (j + 1..n).any(|i| !is_zero(blk(i))) {
                return fail(ctx, "OFB: only the same bit positions of block j may change".into());
            }
        }
        Family::Pcbc => {
            if is_zero(blk(j)) {
                return fail(ctx, "plaintext block j did not change".into());
            }
            if j + 1 < n {
                // every later block changes by the same amount dS = dP_j xor delta; it is zero
                // only if D(c^delta)^D(c) == delta, which the definition itself allows
                let ds = xor(blk(j), &delta);
                if is_zero(&ds) {
                    ctx.st.count("pcbc.propagation-cancelled-by-cipher(excluded)");
                } else if let Some(i) = (j + 1..n).find(|&i| blk(i) != &ds[..]) {
                    return fail(ctx, format!("plaintext block {} changed by {} but PCBC propagates {} to every later block", i, hex_short(blk(i)), hex_short(&ds)));
                }
            }
        }
        Family::Ige => {
            if is_zero(blk(j)) {
                return fail(ctx, "plaintext block j did not change".into());
            }
            if j + 1 < n {
                // d_{j+1} = D(x ^ dP_j) ^ D(x) ^ delta may cancel (the definition allows it);
                // from then on d_{i+1} = D(x_i ^ d_i) ^ D(x_i) is non-zero iff d_i is
                if is_zero(blk(j + 1)) {
                    ctx.st.count("ige.propagation-cancelled-by-cipher(excluded)");
                    if let Some(i) = (j + 2..n).find(|&i| !is_zero(blk(i))) {
                        return fail(ctx, format!("block j+1 unchanged but later block {} changed", i));
                    }
                } else if let Some(i) = (j + 2..n).find(|&i| is_zero(blk(i))) {
                    return fail(ctx, format!("plaintext block {} after j did not change although block {} did (IGE propagates indefinitely)", i, i - 1));
                }
            }
        }
    }
    ctx.st.count(&format!("ok.{}", name));
    ctx.st.count(&format!("pos.{}.{}", name, jc));
    ctx.st.count(&format!("delta.{}.{}", name, dcname));
    ctx.nontrivial = n >= 2;
    if n >= 2 {
        ctx.cell(format!("{}|{}|{}|{}|{}|{}", name, ctx.cfg.name, len_class(n, w), jc, dcname, sc));
    }
}

/// CFB decryption through the byte-oriented front-ends: buffered (any chunking) and one-shot
/// (partial final block). Altering ciphertext block j flips the same bits of block j, garbles
/// block j+1 and nothing else.
fn cfb_bytes(ctx: &mut Ctx) {
    let b = ctx.cfg.bs;
    let buffered = ctx.rng.coin();
    let (iv, _) = mode_iv(ctx, b);
    let (len, rc) = wl::nbytes(&mut ctx.rng, b, ctx.cfg.par, ctx.tier);
    let len = len.max(b + 1).min(40 * b + b - 1);
    let (mut data, _) = mode_data(ctx, len);
    let nfull = len / b;
    let j = match ctx.rng.below(3) {
        0 => 0,
        1 => nfull - 1,
        _ => ctx.rng.below(nfull),
    };
    // sometimes the altered block is one only the owner of D can make: E(c_j) has a zero word
    if ctx.rc.has_d() && b >= 8 && ctx.rng.chance(1, 3) {
        let x = crafted_preimage(ctx, b);
        data[j * b..(j + 1) * b].copy_from_slice(&x);
    }
    let (delta, dcname) = gen_delta(ctx, b);
    let mut data2 = data.clone();
    for (i, x) in delta.iter().enumerate() {
        data2[j * b + i] ^= x;
    }
    let (sched, sc) = wl::byte_schedule(&mut ctx.rng, len, b);
    ctx.note("iv", J::s(hex_short(&iv)));
    ctx.note("data", J::s(hex_short(&data)));
    ctx.note("j", J::i(j as i64));
    ctx.note("delta", J::s(hex_short(&delta)));
    let key = ctx.key.clone();
    let name;
    let outs: Result<(Vec<u8>, Vec<u8>), bmv_core::util::PanicInfo> = if buffered {
        let Some(d) = ctx.cfg.buf(Direction::Dec).cloned() else { return };
        name = "cfb-buf/dec".to_string();
        ctx.subject(&name);
        ctx.note("pieces", J::Arr(sched.iter().map(|x| J::i(*x as i64)).collect()));
        guard(|| {
            let mut res = Vec::new();
            for dat in [&data, &data2] {
                let mut o = (d.mk)(Ctor::New, &key, &iv).unwrap();
                let mut buf = dat.to_vec();
                let mut off = 0;
                for &k in &sched {
                    o.apply(&mut buf[off..off + k]);
                    off += k;
                }
                res.push(buf);
            }
            let b2 = res.pop().unwrap();
            (res.pop().unwrap(), b2)
        })
    } else {
        let Some(d) = ctx.cfg.blk(Family::Cfb, Direction::Dec).cloned() else { return };
        name = "cfb/dec/oneshot".to_string();
        ctx.subject(&name);
        let form = *ctx.rng.pick(&FORMS3);
        guard(|| {
            let mut res = Vec::new();
            for dat in [&data, &data2] {
                let o = (d.mk)(Ctor::New, &key, &iv).unwrap();
                let mut out = vec![0x7Eu8; len];
                assert!(o.oneshot(form, dat, &mut out) == Some(true));
                res.push(out);
            }
            let b2 = res.pop().unwrap();
            (res.pop().unwrap(), b2)
        })
    };
    ctx.st.api_calls += 2 * sched.len() as u64;
    let (o1, o2) = match outs {
        Ok(v) => v,
        Err(p) => return ctx.panic_violation(&name, &p),
    };
    let diff = xor(&o1, &o2);
    let fail = |ctx: &mut Ctx, what: String| {
        ctx.violation(&format!("C15/support/{}", name), format!("ciphertext block {} of {} bytes altered by {}: {}", j, len, hex_short(&delta), what));
    };
    if !is_zero(&diff[..j * b]) {
        return ctx.violation(&format!("C15/causality/{}", name), "output before the altered block changed".into());
    }
    if diff[j * b..(j + 1) * b] != delta[..] {
        return fail(ctx, "plaintext block j did not change by exactly delta".into());
    }
    let next_end = ((j + 2) * b).min(len);
    let next = &diff[(j + 1) * b..next_end];
    // a whole block changes for sure (E is a bijection: E(c) != E(c ^ delta)). A *partial* block shows
    // only the leading bytes of E(c ^ delta): that they differ is a diffusion argument, valid (2^-64
    // for >= 8 bytes) for the real ciphers only - the toy cipher diffuses slowly in large blocks and
    // did produce equal 15-byte prefixes for a change at byte 251 of a 255-byte block (11.4 item 10).
    if next.len() == b || (next.len() >= 8 && ctx.cfg.real) {
        if !next.is_empty() && is_zero(next) {
            return fail(ctx, "plaintext block j+1 did not change".into());
        }
    } else if next.len() >= 8 {
        ctx.st.count("cfb.partial-next-block-change-not-demanded(toy cipher)");
    }
    if next_end < len && !is_zero(&diff[next_end..]) {
        let i = next_end + diff[next_end..].iter().position(|&x| x != 0).unwrap();
        return fail(ctx, format!("plaintext byte {} (after block j+1) changed: no re-synchronisation", i));
    }
    ctx.st.count(&format!("ok.{}", name));
    if len % b != 0 {
        ctx.st.count(&format!("partial-last.{}", name));
    }
    ctx.nontrivial = true;
    ctx.cell(format!("{}|{}|{}|{}|{}", name, ctx.cfg.name, rc, sc, dcname));
}

/// CTR / OFB / BelT-CTR byte streams
fn stream(ctx: &mut Ctx) {
    if ctx.cfg.streams.is_empty() {
        return;
    }
    let d = ctx.rng.pick(&ctx.cfg.streams).clone();
    let name = format!("{}/stream", d.flavor.name());
    ctx.subject(&name);
    let b = ctx.cfg.bs;
    let (iv, _) = stream_iv(ctx, d.flavor, b);
    let (len, rc) = wl::nbytes(&mut ctx.rng, b, ctx.cfg.par, ctx.tier);
    let len = len.max(1);
    let (data, _) = mode_data(ctx, len);
    let j = match ctx.rng.below(3) {
        0 => 0,
        1 => len - 1,
        _ => ctx.rng.below(len),
    };
    let dl = ctx.rng.range(1, (len - j).min(b));
    let (delta, dcname) = gen_delta(ctx, dl);
    let mut data2 = data.clone();
    for (i, x) in delta.iter().enumerate() {
        data2[j + i] ^= x;
    }
    // an entirely different data stream as well (keystream independence)
    let data3 = ctx.rng.bytes(len);
    let (sched, sc) = wl::byte_schedule(&mut ctx.rng, len, b);
    ctx.note("iv", J::s(hex_short(&iv)));
    ctx.note("data", J::s(hex_short(&data)));
    ctx.note("j", J::i(j as i64));
    ctx.note("delta", J::s(hex_short(&delta)));
    let key = ctx.key.clone();
    spy::log_start();
    let r = guard(|| {
        let mut res = Vec::new();
        for dat in [&data, &data2, &data3] {
            let mut o = (d.mk)(Ctor::New, &key, &iv).unwrap();
            let _ = spy::log_take();
            let mut out = vec![0u8; len];
            let mut off = 0;
            for &k in &sched {
                assert!(o.try_apply(Form::B2b, &dat[off..off + k], &mut out[off..off + k]));
                off += k;
            }
            let inputs: Vec<Vec<u8>> = spy::log_take().into_iter().filter(|e| e.dir == Dir::E).map(|e| e.inp).collect();
            res.push((out, inputs, o.core_iv_state()));
        }
        res
    });
    spy::log_stop();
    ctx.st.api_calls += 3 * sched.len() as u64;
    let res = match r {
        Ok(v) => v,
        Err(p) => return ctx.panic_violation(&name, &p),
    };
    let diff = xor(&res[0].0, &res[1].0);
    let mut want = vec![0u8; len];
    want[j..j + dl].copy_from_slice(&delta);
    if diff != want {
        let bad = diff.iter().zip(&want).position(|(a, b)| a != b).unwrap();
        return ctx.violation(&format!("C15/support/{}", name), format!("altering bytes {}..{} changed output byte {} by {:02x} (expected {:02x})", j, j + dl, bad, diff[bad], want[bad]));
    }
    // keystream independent of the data: in^out equal, and the cipher saw the same inputs
    let ks0 = xor(&res[0].0, &data);
    let ks3 = xor(&res[2].0, &data3);
    if ks0 != ks3 {
        return ctx.violation(&format!("C15/keystream-depends-on-data/{}", name), "two different data streams were XORed with different keystreams".into());
    }
    if ctx.cfg.spied && (res[0].1 != res[2].1 || res[0].1 != res[1].1) {
        return ctx.violation(&format!("C15/cipher-inputs-depend-on-data/{}", name), "the blocks handed to the cipher differ between two data streams".into());
    }
    if res[0].2 != res[2].2 {
        return ctx.violation(&format!("C15/state-depends-on-data/{}", name), "exported state differs between two data streams".into());
    }
    ctx.st.count(&format!("ok.{}", name));
    ctx.st.count(&format!("delta.{}.{}", name, dcname));
    if len > b {
        ctx.nontrivial = true;
        ctx.cell(format!("{}|{}|{}|{}|{}", name, ctx.cfg.name, rc, sc, dcname));
    }
}
