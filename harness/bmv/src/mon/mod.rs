pub mod c01;
pub mod c02;
pub mod c03;
pub mod c04;
pub mod c05;
pub mod c07;
pub mod common;

use crate::ctx::{Ctx, Stats, Tier};

pub struct Monitor {
    pub prop: &'static str,
    pub run: fn(&mut Ctx),
    /// cases per tier (quick, thorough, slice)
    pub cases: (u64, u64, u64),
    pub rule: &'static str,
    /// minimum observation thresholds: (counter-or-special, minimum) evaluated on the merged stats
    pub thresholds: fn(&Stats, Tier, &[String]) -> Vec<String>,
}

fn no_thresholds(_: &Stats, _: Tier, _: &[String]) -> Vec<String> {
    Vec::new()
}

/// helper: require counter >= min
pub fn need(st: &Stats, unmet: &mut Vec<String>, key: &str, min: u64) {
    let v = st.get(key);
    if v < min {
        unmet.push(format!("{} = {} < {}", key, v, min));
    }
}

pub fn monitors() -> Vec<Monitor> {
    vec![
        Monitor {
            prop: "C01",
            run: c01::run,
            cases: (40000, 600000, 80),
            rule: "one case = one round trip m -> c -> m' through a pair of API paths (block/blocks/inout/b2b schedules, padded x padding x form, one-shot, buffered, byte stream with seek-back, keystream core, CTS) on one cipher config; non-trivial = at least 2 blocks or a partial block involved; distinct = (subject, cipher config, length/residue class, path/schedule classes of both directions)",
            thresholds: c01_thresholds,
        },
        Monitor {
            prop: "C04",
            run: c04::run_c04,
            cases: (40000, 600000, 60),
            rule: "one case = one (CTR flavour, cipher config, IV class incl. counter fields at 2^k-1 and all-ones nonce words, start block index incl. ~2^16/2^32/2^64/limit-room via set_block_pos, byte or block schedule); the spy cipher log must show E asked for layout(IV,i) for every block produced; non-trivial = the counter field crosses a 2^k-1 boundary (k>=8) or wraps, or the nonce has extra words; distinct = (flavour+front-end, cipher config, IV class, index class, length class)",
            thresholds: c04_thresholds,
        },
        Monitor {
            prop: "C05",
            run: c05::run,
            cases: (40000, 600000, 60),
            rule: "one case = one (CTS variant, direction, cipher config, IV, message length L>=b chosen by block count and residue d, call form, output pre-fill); decryption is fed arbitrary bytes; non-trivial = every case (L>=b); distinct = (variant/direction, cipher config, n class {1,2,>2}, d class {b,1,b-1,mid}, form)",
            thresholds: c05_thresholds,
        },
        Monitor {
            prop: "C06",
            run: c04::run_c06,
            cases: (20000, 300000, 60),
            rule: "one case = one (BelT-CTR front-end, 16-byte-block cipher config of any width, IV incl. IVs crafted with D so that s0=E(IV) sits at 2^128-1/-2/-17/2^64-1, start block, schedule); the spy log must show E(IV) at construction and E(LE128(s0+i)) for every block; non-trivial = s0+i crosses a byte carry/wraps or width > 1; distinct = (front-end, cipher config, IV class, index class, length class)",
            thresholds: c06_thresholds,
        },
        Monitor {
            prop: "C07",
            run: c07::run,
            cases: (40000, 600000, 80),
            rule: "one case = the same block sequence fed (a) one block per call and (b) through a generated schedule of mixed call kinds, or through the same permutation under a different declared parallel width; outputs and iv_state at every piece boundary must agree; non-trivial = the scheduled run formed >= 2 full backend batches plus a non-empty tail (seen in the spy log), or has >= 3 pieces; distinct = (subject, cipher config, length class, schedule class, batches, tail)",
            thresholds: c07_thresholds,
        },
        Monitor {
            prop: "C02",
            run: c02::run,
            cases: (6000, 120000, 60),
            rule: "one case = one (mode, direction, cipher config, IV, block sequence, feeding schedule with mixed call kinds, output pre-fill); non-trivial = at least 2 blocks; distinct = (subject, cipher config, length class relative to the parallel width, schedule class)",
            thresholds: c02_thresholds,
        },
        Monitor {
            prop: "C03",
            run: c03::run,
            cases: (6000, 120000, 60),
            rule: "one case = one (CFB/CFB-8/OFB front-end, direction, cipher config, IV, message, chunking); non-trivial = more than one block of data (and >= 2 pieces for chunked front-ends); distinct = (subject, cipher config, residue class of the length mod block size, schedule/form class)",
            thresholds: c03_thresholds,
        },
    ]
}

fn c01_thresholds(st: &Stats, tier: Tier, _cfgs: &[String]) -> Vec<String> {
    let mut u = Vec::new();
    if tier == Tier::Slice {
        return u;
    }
    for f in ["cbc", "pcbc", "ige", "cfb", "cfb8", "ofb"] {
        need(st, &mut u, &format!("ok.{}/blocks", f), 20);
        need(st, &mut u, &format!("ok.{}/padded", f), 10);
    }
    for p in ["Pkcs7", "Iso7816", "AnsiX923", "NoPadding", "ZeroPadding"] {
        need(st, &mut u, &format!("ok.padded.{}", p), 10);
    }
    for f in ["cfb/oneshot", "cfb8/oneshot", "cfb-buf", "ofb/stream", "ctr32be/stream", "ctr64le/stream", "ctr128be/stream", "ctr128le/stream", "beltctr/stream", "ofb/core", "ctr32le/core", "beltctr/core"] {
        need(st, &mut u, &format!("ok.{}", f), 5);
    }
    need(st, &mut u, "partial.cfb/oneshot", 5);
    for v in ["cbc_cs1", "cbc_cs2", "cbc_cs3", "ecb_cs1", "ecb_cs2", "ecb_cs3"] {
        need(st, &mut u, &format!("ok.{}", v), 10);
    }
    u
}

fn c04_thresholds(st: &Stats, tier: Tier, _cfgs: &[String]) -> Vec<String> {
    let mut u = Vec::new();
    if tier == Tier::Slice {
        return u;
    }
    for f in ["ctr32be", "ctr32le", "ctr64be", "ctr64le", "ctr128be", "ctr128le"] {
        need(st, &mut u, &format!("ok.{}/stream", f), 20);
        need(st, &mut u, &format!("ok.{}/core", f), 20);
        need(st, &mut u, &format!("crosses-2^k.{}", f), 10);
        need(st, &mut u, &format!("multiword-nonce.{}", f), 10);
        need(st, &mut u, &format!("far-index.{}", f), 10);
        need(st, &mut u, &format!("par-events.{}", f), 5);
    }
    u
}

fn c05_thresholds(st: &Stats, tier: Tier, _cfgs: &[String]) -> Vec<String> {
    let mut u = Vec::new();
    if tier == Tier::Slice {
        return u;
    }
    for v in ["cbc_cs1", "cbc_cs2", "cbc_cs3", "ecb_cs1", "ecb_cs2", "ecb_cs3"] {
        for n in ["n=1", "n=2", "n>2"] {
            need(st, &mut u, &format!("res.{}.{}.d=b", v, n), 3);
        }
        for n in ["n=2", "n>2"] {
            need(st, &mut u, &format!("res.{}.{}.d<b", v, n), 3);
        }
        need(st, &mut u, &format!("arbitrary-ciphertext.{}", v), 10);
    }
    u
}

fn c06_thresholds(st: &Stats, tier: Tier, _cfgs: &[String]) -> Vec<String> {
    let mut u = Vec::new();
    if tier == Tier::Slice {
        return u;
    }
    need(st, &mut u, "ok.beltctr/stream", 20);
    need(st, &mut u, "ok.beltctr/core", 20);
    need(st, &mut u, "belt.s0-near-boundary", 10);
    need(st, &mut u, "belt.width>1", 10);
    need(st, &mut u, "par-events.beltctr", 5);
    u
}

fn c07_thresholds(st: &Stats, tier: Tier, _cfgs: &[String]) -> Vec<String> {
    let mut u = Vec::new();
    if tier == Tier::Slice {
        return u;
    }
    for s in ["cbc/dec", "cfb/dec"] {
        need(st, &mut u, &format!("two-batches-and-tail.{}", s), 10);
    }
    for s in ["cbc/enc", "pcbc/enc", "pcbc/dec", "ige/enc", "ige/dec", "cfb/enc", "cfb8/enc", "cfb8/dec", "ofb/enc", "ofb/dec"] {
        need(st, &mut u, &format!("ok.{}", s), 20);
    }
    for s in ["ctr32be/core", "ctr64le/core", "ctr128be/core", "beltctr/core"] {
        need(st, &mut u, &format!("two-batches-and-tail.{}", s), 5);
    }
    need(st, &mut u, "ok.width-twin", 20);
    u
}

fn c02_thresholds(st: &Stats, tier: Tier, _cfgs: &[String]) -> Vec<String> {
    let mut u = Vec::new();
    if tier == Tier::Slice {
        return u;
    }
    for fam in ["cbc", "pcbc", "ige"] {
        need(st, &mut u, &format!("ok.{}/enc", fam), 20);
        need(st, &mut u, &format!("arbitrary-ciphertext.{}/dec", fam), 20);
    }
    need(st, &mut u, "par-events.cbc/dec", 5);
    need(st, &mut u, "tail-events.cbc/dec", 5);
    u
}

fn c03_thresholds(st: &Stats, tier: Tier, _cfgs: &[String]) -> Vec<String> {
    let mut u = Vec::new();
    if tier == Tier::Slice {
        return u;
    }
    for s in ["cfb/enc", "cfb/dec", "cfb8/enc", "cfb8/dec", "ofb/enc", "ofb/dec"] {
        need(st, &mut u, &format!("ok.{}", s), 20);
    }
    for s in ["cfb/enc/oneshot", "cfb/dec/oneshot", "cfb8/enc/oneshot", "cfb8/dec/oneshot"] {
        need(st, &mut u, &format!("ok.{}", s), 20);
    }
    need(st, &mut u, "partial-final-block.cfb/enc/oneshot", 5);
    need(st, &mut u, "partial-final-block.cfb/dec/oneshot", 5);
    for s in ["cfb-buf/enc", "cfb-buf/dec", "ofb/stream", "ofb/core"] {
        need(st, &mut u, &format!("ok.{}", s), 20);
    }
    need(st, &mut u, "par-events.cfb/dec", 5);
    u
}

#[allow(dead_code)]
pub fn unused() {
    let _ = no_thresholds;
}
