pub mod c01;
pub mod c02;
pub mod c03;
pub mod c04;
pub mod c05;
pub mod c07;
pub mod c08;
pub mod c09;
pub mod c10;
pub mod c11;
pub mod c12;
pub mod c13;
pub mod c14;
pub mod c15;
pub mod c16;
pub mod c17;
pub mod common;

use crate::ctx::{Ctx, Stats, Tier};

pub struct Monitor {
    pub prop: &'static str,
    pub run: fn(&mut Ctx),
    /// cases per tier (quick, thorough, slice)
    pub cases: (u64, u64, u64),
    pub rule: &'static str,
    /// minimum observation thresholds: (counter-or-special, minimum) evaluated on the merged stats
    pub thresholds: fn(&Stats, Tier, &[String]) -> Vec<String>,
}

fn no_thresholds(_: &Stats, _: Tier, _: &[String]) -> Vec<String> {
    Vec::new()
}

/// helper: require counter >= min
pub fn need(st: &Stats, unmet: &mut Vec<String>, key: &str, min: u64) {
    let v = st.get(key);
    if v < min {
        unmet.push(format!("{} = {} < {}", key, v, min));
    }
}

pub fn monitors() -> Vec<Monitor> {
    vec![
        Monitor {
            prop: "C01",
            run: c01::run,
            cases: (160000, 1800000, 80),
            rule: "one case = one round trip m -> c -> m' through a pair of API paths (block/blocks/inout/b2b schedules, padded x padding x form, one-shot, buffered, byte stream with seek-back, keystream core, CTS) on one cipher config; non-trivial = at least 2 blocks or a partial block involved; distinct = (subject, cipher config, length/residue class, path/schedule classes of both directions)",
            thresholds: c01_thresholds,
        },
        Monitor {
            prop: "C04",
            run: c04::run_c04,
            cases: (160000, 1800000, 60),
            rule: "one case = one (CTR flavour, cipher config, IV class incl. counter fields at 2^k-1 and all-ones nonce words, start block index incl. ~2^16/2^32/2^64/limit-room via set_block_pos, byte or block schedule); the spy cipher log must show E asked for layout(IV,i) for every block produced; non-trivial = the counter field crosses a 2^k-1 boundary (k>=8) or wraps, or the nonce has extra words; distinct = (flavour+front-end, cipher config, IV class, index class, length class)",
            thresholds: c04_thresholds,
        },
        Monitor {
            prop: "C05",
            run: c05::run,
            cases: (160000, 1800000, 60),
            rule: "one case = one (CTS variant, direction, cipher config, IV, message length L>=b chosen by block count and residue d, call form, output pre-fill); decryption is fed arbitrary bytes; non-trivial = every case (L>=b); distinct = (variant/direction, cipher config, n class {1,2,>2}, d class {b,1,b-1,mid}, form)",
            thresholds: c05_thresholds,
        },
        Monitor {
            prop: "C06",
            run: c04::run_c06,
            cases: (80000, 900000, 60),
            rule: "one case = one (BelT-CTR front-end, 16-byte-block cipher config of any width, IV incl. IVs crafted with D so that s0=E(IV) sits at 2^128-1/-2/-17/2^64-1, start block, schedule); the spy log must show E(IV) at construction and E(LE128(s0+i)) for every block; non-trivial = s0+i crosses a byte carry/wraps or width > 1; distinct = (front-end, cipher config, IV class, index class, length class)",
            thresholds: c06_thresholds,
        },
        Monitor {
            prop: "C07",
            run: c07::run,
            cases: (160000, 1800000, 80),
            rule: "one case = the same block sequence fed (a) one block per call and (b) through a generated schedule of mixed call kinds, or through the same permutation under a different declared parallel width; outputs and iv_state at every piece boundary must agree; non-trivial = the scheduled run formed >= 2 full backend batches plus a non-empty tail (seen in the spy log), or has >= 3 pieces; distinct = (subject, cipher config, length class, schedule class, batches, tail)",
            thresholds: c07_thresholds,
        },
        Monitor {
            prop: "C08",
            run: c08::run,
            cases: (120000, 1500000, 60),
            rule: "one case = one byte string cut into generated pieces (empties, boundary-then-short, straddles, single bytes, random) fed to a byte-level stream cipher / buffered CFB and compared with one call on the whole string, or one message whose one-shot CFB/CFB-8 output is compared with the output on each sampled prefix (every k in the last two blocks); non-trivial = more than one block and >= 2 pieces; distinct = (subject, cipher config, residue class, schedule class)",
            thresholds: c08_thresholds,
        },
        Monitor {
            prop: "C09",
            run: c09::run,
            cases: (120000, 1500000, 60),
            rule: "one case = run(m[..k]); export; import into a fresh instance; run(m[k..]) for 1-4 chained cut points (block cuts; byte cuts for buffered CFB via get_state/from_state), compared with the uninterrupted run; at every cut the exported value is compared with the chaining value computed from the object's own input/output (or the next block seen by the spy cipher), and with the state of the opposite direction fed corresponding data; non-trivial = >= 2 blocks; distinct = (subject, cipher config, length class, cut position class, number of cuts)",
            thresholds: c09_thresholds,
        },
        Monitor {
            prop: "C10",
            run: c10::run,
            cases: (48000, 600000, 40),
            rule: "one case = one history of 3-24 {seek::<T>(q), apply(n), current_pos::<T>} operations on one seekable stream cipher, starting at 0 or at a far block (2^16, 2^32, 2^64, limit-40, around u128::MAX/bs) reached with set_block_pos+from_core; a shadow (block, offset) position is compared with try_current_pos in all five integer types after every op, and produced bytes with the keystream from offset 0 / a second instance seeking delta earlier / the definitional keystream (gated); non-trivial = >= 3 ops; distinct = (subject, cipher config, IV class, backward seek seen, seek inside block after partial read seen, offset >= 2^32 seen, far start)",
            thresholds: c10_thresholds,
        },
        Monitor {
            prop: "C11",
            run: c11::run,
            cases: (80000, 900000, 40),
            rule: "one case = a remaining_blocks/request probe at a block position anywhere in the keystream (0, 2^16, 2^31, 2^32, 2^63, 2^64, 2^127, random; exact remaining count demanded whenever one is reported), or one history on an instance positioned 0-4 blocks before the end of its keystream (via set_block_pos+from_core, or by handing out blocks 0..2 and then seeking): requests of room, room+-1, room+-block, ... bytes, seeks inside and past the end, with (current_pos, block_pos, remaining_blocks, caller buffer) compared before/after every refused call and a counter-block -> position map checked for reuse; or one try_apply_keystream_partial call on a core with 0-5 blocks remaining; non-trivial = every case (all are within 5 blocks of the limit); distinct = (subject, cipher config, start distance, reached-by-seek, exact-fit seen, +1 byte seen, +block seen)",
            thresholds: c11_thresholds,
        },
        Monitor {
            prop: "C12",
            run: c12::run,
            cases: (120000, 1500000, 80),
            rule: "one case = one operation sequence executed in place and buffer-to-buffer (two different output pre-fills, at least one non-zero: ones / random / copy of input / complement) on separate instances; outputs, exported state after every piece and the read-only input are compared; covers block/blocks/inout calls, padded x 4 forms, one-shot, byte streams, cores incl. the partial call, CTS; non-trivial = non-empty data; distinct = (subject, cipher config, length class, schedule class, pre-fill)",
            thresholds: c12_thresholds,
        },
        Monitor {
            prop: "C13",
            run: c13::run,
            cases: (160000, 1800000, 80),
            rule: "one case = one row of the contract table (CTS with L<b / L>=b; every equal-length b2b API with unequal lengths; padded decryption of a non-multiple length in 4 forms x 5 paddings; construction from key/IV slices of wrong/right length for every type) with all caller buffers and canary zones compared byte-for-byte after a rejected call, or one history of another property's workload run in panic-only mode (every unwind out of a public operation is recorded by the panic hook; harness-internal panics are harness errors); non-trivial = every case; distinct = (row kind or workload, subject, cipher config, form/padding/length class)",
            thresholds: c13_thresholds,
        },
        Monitor {
            prop: "C14",
            run: c14::run,
            cases: (120000, 1500000, 60),
            rule: "one case = one message pushed through a listed pair (or triple/quadruple) of front-ends: buffered/block-level/one-shot CFB; OfbCore as block encryptor/decryptor/keystream core/byte stream; CTR and BelT cores block-wise vs byte-level; CTS on whole blocks vs plain CBC / raw block encryption (CS3: last two blocks exchanged; n=1 equal); the four constructors of every type; non-trivial = >= 2 blocks (every case for the CTS and constructor pairs); distinct = (pair, cipher config, length class, schedule classes)",
            thresholds: c14_thresholds,
        },
        Monitor {
            prop: "C15",
            run: c15::run,
            cases: (120000, 1500000, 60),
            rule: "one case = dec(c) vs dec(c xor delta@j) (or enc for causality) under one schedule, delta in {1 bit, 1 byte, whole block}, j in {first, middle, last}; support of the difference compared exactly with the definition (CBC: j garbled, j+1 = delta, rest 0; CFB: j = delta, j+1 changed, rest 0; CFB-8: byte j = delta, b bytes free, then 0; CTR/OFB/BelT: delta in place only, spy-cipher inputs identical for different data; PCBC: constant propagation; IGE: indefinite propagation; the cancellation cases the definition itself allows are excluded and counted); non-trivial = >= 2 blocks; distinct = (subject, cipher config, length class, j class, delta class, schedule class)",
            thresholds: c15_thresholds,
        },
        Monitor {
            prop: "C16",
            run: c16::run,
            cases: (80000, 900000, 60),
            rule: "one case = history h1 on an object, clone, then h2 on the original and h3 on the clone interleaved op by op under a generated schedule (or two separately built instances, same or different key/IV; or original and clone driven from two barrier-released OS threads), every operation result (output bytes + exported state/position) compared with fresh instances replaying h1;h2 and h1;h3 in isolation; non-trivial = every case; distinct = (subject, cipher config, interleaving hash, clone point)",
            thresholds: c16_thresholds,
        },
        Monitor {
            prop: "C17",
            run: c17::run,
            cases: (80000, 900000, 0),
            rule: "one case = (a) Debug {:?}, {:#?} and AlgorithmName text of one type collected over 3 variants of (key, IV, history) before and after the history: the set must be a singleton; or (b) one object built in zero-filled harness-owned storage, driven through a random history in place, then dropped in place while the storage is read back with volatile reads and searched for every high-entropy 8-byte window (and its byte reversal) of the IV, exported state, E(state), E(IV) and buffered keystream; with feature zeroize: 0 windows may remain; without (control build): windows must be found before and after drop, which shows the scan sees what it looks for; non-trivial = every case; distinct = (check, subject, cipher config, history length)",
            thresholds: c17_thresholds,
        },
        Monitor {
            prop: "C02",
            run: c02::run,
            cases: (120000, 1500000, 60),
            rule: "one case = one (mode, direction, cipher config, IV, block sequence, feeding schedule with mixed call kinds, output pre-fill); non-trivial = at least 2 blocks; distinct = (subject, cipher config, length class relative to the parallel width, schedule class)",
            thresholds: c02_thresholds,
        },
        Monitor {
            prop: "C03",
            run: c03::run,
            cases: (120000, 1500000, 60),
            rule: "one case = one (CFB/CFB-8/OFB front-end, direction, cipher config, IV, message, chunking); non-trivial = more than one block of data (and >= 2 pieces for chunked front-ends); distinct = (subject, cipher config, residue class of the length mod block size, schedule/form class)",
            thresholds: c03_thresholds,
        },
    ]
}

fn c01_thresholds(st: &Stats, tier: Tier, _cfgs: &[String]) -> Vec<String> {
    let mut u = Vec::new();
    if tier == Tier::Slice {
        return u;
    }
    for f in ["cbc", "pcbc", "ige", "cfb", "cfb8", "ofb"] {
        need(st, &mut u, &format!("ok.{}/blocks", f), 20);
        need(st, &mut u, &format!("ok.{}/padded", f), 10);
    }
    for p in ["Pkcs7", "Iso7816", "AnsiX923", "NoPadding", "ZeroPadding"] {
        need(st, &mut u, &format!("ok.padded.{}", p), 10);
    }
    for f in ["cfb/oneshot", "cfb8/oneshot", "cfb-buf", "ofb/stream", "ctr32be/stream", "ctr64le/stream", "ctr128be/stream", "ctr128le/stream", "beltctr/stream", "ofb/core", "ctr32le/core", "beltctr/core"] {
        need(st, &mut u, &format!("ok.{}", f), 5);
    }
    need(st, &mut u, "partial.cfb/oneshot", 5);
    for v in ["cbc_cs1", "cbc_cs2", "cbc_cs3", "ecb_cs1", "ecb_cs2", "ecb_cs3"] {
        need(st, &mut u, &format!("ok.{}", v), 10);
    }
    u
}

fn c04_thresholds(st: &Stats, tier: Tier, _cfgs: &[String]) -> Vec<String> {
    let mut u = Vec::new();
    if tier == Tier::Slice {
        return u;
    }
    for f in ["ctr32be", "ctr32le", "ctr64be", "ctr64le", "ctr128be", "ctr128le"] {
        need(st, &mut u, &format!("ok.{}/stream", f), 20);
        need(st, &mut u, &format!("ok.{}/core", f), 20);
        need(st, &mut u, &format!("crosses-2^k.{}", f), 10);
        need(st, &mut u, &format!("multiword-nonce.{}", f), 10);
        need(st, &mut u, &format!("far-index.{}", f), 10);
        need(st, &mut u, &format!("par-events.{}", f), 5);
    }
    u
}

fn c05_thresholds(st: &Stats, tier: Tier, _cfgs: &[String]) -> Vec<String> {
    let mut u = Vec::new();
    if tier == Tier::Slice {
        return u;
    }
    for v in ["cbc_cs1", "cbc_cs2", "cbc_cs3", "ecb_cs1", "ecb_cs2", "ecb_cs3"] {
        for n in ["n=1", "n=2", "n>2"] {
            need(st, &mut u, &format!("res.{}.{}.d=b", v, n), 3);
        }
        for n in ["n=2", "n>2"] {
            need(st, &mut u, &format!("res.{}.{}.d<b", v, n), 3);
        }
        need(st, &mut u, &format!("arbitrary-ciphertext.{}", v), 10);
    }
    u
}

fn c06_thresholds(st: &Stats, tier: Tier, _cfgs: &[String]) -> Vec<String> {
    let mut u = Vec::new();
    if tier == Tier::Slice {
        return u;
    }
    need(st, &mut u, "ok.beltctr/stream", 20);
    need(st, &mut u, "ok.beltctr/core", 20);
    need(st, &mut u, "belt.s0-near-boundary", 10);
    need(st, &mut u, "belt.width>1", 10);
    need(st, &mut u, "par-events.beltctr", 5);
    u
}

fn c07_thresholds(st: &Stats, tier: Tier, _cfgs: &[String]) -> Vec<String> {
    let mut u = Vec::new();
    if tier == Tier::Slice {
        return u;
    }
    for s in ["cbc/dec", "cfb/dec"] {
        need(st, &mut u, &format!("two-batches-and-tail.{}", s), 10);
    }
    for s in ["cbc/enc", "pcbc/enc", "pcbc/dec", "ige/enc", "ige/dec", "cfb/enc", "cfb8/enc", "cfb8/dec", "ofb/enc", "ofb/dec"] {
        need(st, &mut u, &format!("ok.{}", s), 20);
    }
    for s in ["ctr32be/core", "ctr64le/core", "ctr128be/core", "beltctr/core"] {
        need(st, &mut u, &format!("two-batches-and-tail.{}", s), 5);
    }
    need(st, &mut u, "ok.width-twin", 20);
    u
}

fn c08_thresholds(st: &Stats, tier: Tier, _cfgs: &[String]) -> Vec<String> {
    let mut u = Vec::new();
    if tier == Tier::Slice {
        return u;
    }
    for f in ["ctr32be", "ctr32le", "ctr64be", "ctr64le", "ctr128be", "ctr128le", "ofb", "beltctr"] {
        need(st, &mut u, &format!("ok.{}/stream", f), 20);
        need(st, &mut u, &format!("empty-piece.{}", f), 3);
        need(st, &mut u, &format!("boundary-then-short.{}", f), 3);
        need(st, &mut u, &format!("straddle.{}", f), 3);
    }
    for f in ["cfb-buf/enc", "cfb-buf/dec"] {
        need(st, &mut u, &format!("ok.{}", f), 20);
        need(st, &mut u, &format!("empty-piece.{}", f), 3);
        need(st, &mut u, &format!("boundary-then-short.{}", f), 3);
        need(st, &mut u, &format!("straddle.{}", f), 3);
    }
    for f in ["cfb/enc/prefix", "cfb/dec/prefix", "cfb8/enc/prefix", "cfb8/dec/prefix"] {
        need(st, &mut u, &format!("ok.{}", f), 10);
    }
    u
}

fn c09_thresholds(st: &Stats, tier: Tier, _cfgs: &[String]) -> Vec<String> {
    let mut u = Vec::new();
    if tier == Tier::Slice {
        return u;
    }
    for f in ["cbc", "pcbc", "ige", "cfb", "cfb8", "ofb"] {
        for d in ["enc", "dec"] {
            need(st, &mut u, &format!("ok.{}/{}", f, d), 20);
            need(st, &mut u, &format!("cuts.{}/{}", f, d), 30);
        }
        need(st, &mut u, &format!("enc-dec-state.{}", f), 10);
    }
    for f in ["cfb-buf/enc", "cfb-buf/dec"] {
        need(st, &mut u, &format!("ok.{}", f), 20);
        need(st, &mut u, &format!("cut-mid-block.{}", f), 10);
    }
    for f in ["ctr32be", "ctr32le", "ctr64be", "ctr64le", "ctr128be", "ctr128le", "ofb", "beltctr"] {
        need(st, &mut u, &format!("ok.{}/core", f), 10);
    }
    u
}

fn c10_thresholds(st: &Stats, tier: Tier, _cfgs: &[String]) -> Vec<String> {
    let mut u = Vec::new();
    if tier == Tier::Slice {
        return u;
    }
    for f in ["ctr32be", "ctr32le", "ctr64be", "ctr64le", "ctr128be", "ctr128le", "beltctr"] {
        need(st, &mut u, &format!("ok.{}/stream", f), 20);
        need(st, &mut u, &format!("backward-seek.{}", f), 5);
        need(st, &mut u, &format!("seek-inside-block-after-partial.{}", f), 5);
        need(st, &mut u, &format!("offset>=2^32.{}", f), 5);
    }
    for t in ["i32", "u32", "u64", "u128", "usize"] {
        need(st, &mut u, &format!("seek-type.{}", t), 20);
        need(st, &mut u, &format!("pos-type.{}", t), 100);
    }
    need(st, &mut u, "ref.from-zero", 50);
    need(st, &mut u, "ref.seek-delta", 50);
    need(st, &mut u, "pos-overflow-reported", 20);
    u
}

fn c11_thresholds(st: &Stats, tier: Tier, _cfgs: &[String]) -> Vec<String> {
    let mut u = Vec::new();
    if tier == Tier::Slice {
        return u;
    }
    for f in ["ctr32be", "ctr32le", "ctr64be", "ctr64le", "ctr128be", "ctr128le", "beltctr"] {
        need(st, &mut u, &format!("exact-fit-ok.{}", f), 3);
        need(st, &mut u, &format!("over-by-1-err.{}", f), 3);
        need(st, &mut u, &format!("over-by-block-err.{}", f), 3);
        need(st, &mut u, &format!("remaining-near-limit.{}/stream", f), 5);
        need(st, &mut u, &format!("remaining-anywhere.{}", f), 5);
    }
    u
}

fn c12_thresholds(st: &Stats, tier: Tier, _cfgs: &[String]) -> Vec<String> {
    let mut u = Vec::new();
    if tier == Tier::Slice {
        return u;
    }
    for f in ["cbc", "pcbc", "ige", "cfb", "cfb8", "ofb"] {
        for d in ["enc", "dec"] {
            need(st, &mut u, &format!("nonzero-prefill.{}/{}", f, d), 20);
            need(st, &mut u, &format!("ok.{}/{}/padded", f, d), 5);
        }
    }
    for f in ["cfb/enc/oneshot", "cfb/dec/oneshot", "cfb8/enc/oneshot", "cfb8/dec/oneshot"] {
        need(st, &mut u, &format!("ok.{}", f), 5);
    }
    for f in ["ctr32be", "ctr64le", "ctr128be", "ofb", "beltctr"] {
        need(st, &mut u, &format!("ok.{}/stream", f), 5);
        need(st, &mut u, &format!("ok.{}/core", f), 3);
    }
    for v in ["cbc_cs1", "cbc_cs2", "cbc_cs3", "ecb_cs1", "ecb_cs2", "ecb_cs3"] {
        for d in ["enc", "dec"] {
            need(st, &mut u, &format!("ok.{}/{}", v, d), 5);
        }
    }
    u
}

fn c13_thresholds(st: &Stats, tier: Tier, _cfgs: &[String]) -> Vec<String> {
    let mut u = Vec::new();
    if tier == Tier::Slice {
        return u;
    }
    for v in ["cbc_cs1", "cbc_cs2", "cbc_cs3", "ecb_cs1", "ecb_cs2", "ecb_cs3"] {
        need(st, &mut u, &format!("cts-short-rejected.{}", v), 10);
        need(st, &mut u, &format!("cts-accepted.{}", v), 5);
    }
    for k in ["blocks_b2b", "oneshot_b2b", "apply_keystream_b2b", "cts_b2b"] {
        need(st, &mut u, &format!("unequal-rejected.{}", k), 20);
    }
    for f in ["cbc", "pcbc", "ige", "cfb", "ofb"] {
        need(st, &mut u, &format!("nonmultiple-rejected.{}", f), 10);
    }
    need(st, &mut u, "ctor.right-lengths-ok", 50);
    need(st, &mut u, "ctor.wrong-key-rejected", 50);
    need(st, &mut u, "ctor.wrong-iv-rejected", 50);
    for w in ["C01", "C03", "C05", "C07", "C08", "C09", "C10", "C11", "C12", "C14", "C15", "C16"] {
        need(st, &mut u, &format!("panic-monitor.workload.{}", w), 50);
    }
    u
}

fn c14_thresholds(st: &Stats, tier: Tier, _cfgs: &[String]) -> Vec<String> {
    let mut u = Vec::new();
    if tier == Tier::Slice {
        return u;
    }
    need(st, &mut u, "ok.cfb-fronts/enc", 20);
    need(st, &mut u, "ok.cfb-fronts/dec", 20);
    need(st, &mut u, "ok.ofb-fronts", 20);
    for f in ["ctr32be", "ctr64le", "ctr128be", "ctr128le", "beltctr"] {
        need(st, &mut u, &format!("ok.{}/core-vs-stream", f), 5);
    }
    for v in ["cbc_cs1", "cbc_cs2", "cbc_cs3", "ecb_cs1", "ecb_cs2", "ecb_cs3"] {
        for d in ["enc", "dec"] {
            need(st, &mut u, &format!("cts-pair.{}.{}", v, d), 10);
        }
    }
    u
}

fn c15_thresholds(st: &Stats, tier: Tier, _cfgs: &[String]) -> Vec<String> {
    let mut u = Vec::new();
    if tier == Tier::Slice {
        return u;
    }
    for f in ["cbc", "pcbc", "ige", "cfb", "cfb8", "ofb"] {
        for pos in ["first", "middle", "last"] {
            need(st, &mut u, &format!("pos.{}/dec.{}", f, pos), 5);
        }
        need(st, &mut u, &format!("delta.{}/dec.1bit", f), 5);
        need(st, &mut u, &format!("causality.{}/enc", f), 5);
    }
    for f in ["ctr32be", "ctr64le", "ctr128be", "ofb", "beltctr"] {
        need(st, &mut u, &format!("ok.{}/stream", f), 10);
    }
    need(st, &mut u, "cfb8.resync-observed", 10);
    need(st, &mut u, "ok.cfb-buf/dec", 20);
    need(st, &mut u, "ok.cfb/dec/oneshot", 20);
    need(st, &mut u, "partial-last.cfb/dec/oneshot", 5);
    u
}

fn c16_thresholds(st: &Stats, tier: Tier, _cfgs: &[String]) -> Vec<String> {
    let mut u = Vec::new();
    if tier == Tier::Slice {
        return u;
    }
    for f in ["cbc/enc", "cbc/dec", "pcbc/enc", "ige/dec", "cfb/enc", "cfb/dec", "cfb8/enc", "ofb/enc", "cfb-buf/enc", "cfb-buf/dec", "ofb/stream", "ctr32be/stream", "ctr64le/stream", "ctr128be/stream", "ctr128le/core", "ctr32le/core", "ofb/core"] {
        need(st, &mut u, &format!("ok.{}", f), 5);
        need(st, &mut u, &format!("clone-after-history.{}", f), 3);
    }
    need(st, &mut u, "interleavings", 200);
    need(st, &mut u, "ok.two-instances", 50);
    need(st, &mut u, "ok.clone_from", 50);
    need(st, &mut u, "ok.threads", 20);
    u
}

fn c17_thresholds(st: &Stats, tier: Tier, _cfgs: &[String]) -> Vec<String> {
    let mut u = Vec::new();
    if tier == Tier::Slice {
        return u;
    }
    let types = [
        "cbc/enc", "cbc/dec", "pcbc/enc", "pcbc/dec", "ige/enc", "ige/dec", "cfb/enc", "cfb/dec", "cfb8/enc", "cfb8/dec", "ofb/enc", "ofb/dec", "cfb-buf/enc", "cfb-buf/dec", "ofb/stream", "ofb/core", "ctr32be/stream",
        "ctr32le/core", "ctr64be/core", "ctr64le/stream", "ctr128be/stream", "ctr128le/core", "beltctr/stream", "beltctr/core",
    ];
    for t in types {
        need(st, &mut u, &format!("zeroize.scanned.{}", t), 5);
        // the scan must see live secrets in every type it scans, in both builds
        need(st, &mut u, &format!("zeroize.live-hit.{}", t), 3);
        if !cfg!(feature = "zeroize") {
            // control build: the bytes are still there after drop, i.e. the scan can see them
            need(st, &mut u, &format!("zeroize.after-drop-hit.{}", t), 3);
        }
    }
    need(st, &mut u, "debug.variants", 200);
    for t in ["cbc/enc", "cfb-buf/dec", "ctr32be/stream", "ctr64le/core", "ctr128be/core", "beltctr/stream", "ofb/core", "ige/dec"] {
        need(st, &mut u, &format!("zeroize.state-map.saw-state.{}", t), 3);
        if !cfg!(feature = "zeroize") {
            need(st, &mut u, &format!("zeroize.state-map.after-drop-nonzero.{}", t), 3);
        }
    }
    u
}

fn c02_thresholds(st: &Stats, tier: Tier, _cfgs: &[String]) -> Vec<String> {
    let mut u = Vec::new();
    if tier == Tier::Slice {
        return u;
    }
    for fam in ["cbc", "pcbc", "ige"] {
        need(st, &mut u, &format!("ok.{}/enc", fam), 20);
        need(st, &mut u, &format!("arbitrary-ciphertext.{}/dec", fam), 20);
    }
    need(st, &mut u, "par-events.cbc/dec", 5);
    need(st, &mut u, "tail-events.cbc/dec", 5);
    u
}

fn c03_thresholds(st: &Stats, tier: Tier, _cfgs: &[String]) -> Vec<String> {
    let mut u = Vec::new();
    if tier == Tier::Slice {
        return u;
    }
    for s in ["cfb/enc", "cfb/dec", "cfb8/enc", "cfb8/dec", "ofb/enc", "ofb/dec"] {
        need(st, &mut u, &format!("ok.{}", s), 20);
    }
    for s in ["cfb/enc/oneshot", "cfb/dec/oneshot", "cfb8/enc/oneshot", "cfb8/dec/oneshot"] {
        need(st, &mut u, &format!("ok.{}", s), 20);
    }
    need(st, &mut u, "partial-final-block.cfb/enc/oneshot", 5);
    need(st, &mut u, "partial-final-block.cfb/dec/oneshot", 5);
    for s in ["cfb-buf/enc", "cfb-buf/dec", "ofb/stream", "ofb/core"] {
        need(st, &mut u, &format!("ok.{}", s), 20);
    }
    need(st, &mut u, "par-events.cfb/dec", 5);
    u
}

#[allow(dead_code)]
pub fn unused() {
    let _ = no_thresholds;
}
