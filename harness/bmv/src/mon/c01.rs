//! C01 — decryption inverts encryption, through every public way of driving a mode;
//! unpadded operations produce exactly as many bytes as they were given. (relative)

use super::common::*;
use crate::ctx::{ALL_FILLS, Canary, Ctx, Fill, diff_desc};
use crate::model;
use crate::wl;
use bmv_core::subj::*;
use bmv_core::util::{J, guard, hex_short};

pub fn run(ctx: &mut Ctx) {
    match ctx.rng.below(16) {
        0..=4 => blocks(ctx),
        5..=7 => padded(ctx),
        8..=9 => oneshot(ctx),
        10 => buffered(ctx),
        11..=12 => stream(ctx),
        13 => core(ctx),
        _ => cts(ctx),
    }
}

const FAMS: [Family; 6] = [Family::Cbc, Family::Pcbc, Family::Ige, Family::Cfb, Family::Cfb8, Family::OfbBlk];

/// enc with schedule A, dec with schedule B
fn blocks(ctx: &mut Ctx) {
    let fam = *ctx.rng.pick(&FAMS);
    let (Some(de), Some(dd)) = (ctx.cfg.blk(fam, Direction::Enc).cloned(), ctx.cfg.blk(fam, Direction::Dec).cloned()) else { return };
    let name = format!("{}/blocks", fam.name());
    ctx.subject(&name);
    let w = ctx.cfg.par;
    let (iv, _) = mode_iv(ctx, de.iv_len);
    let n = if fam == Family::Cfb8 { wl::nbytes(&mut ctx.rng, ctx.cfg.bs, w, ctx.tier).0.min(400) } else { wl::nblocks(&mut ctx.rng, w, de.bs, ctx.tier).0 };
    let (msg, _) = mode_data(ctx, n * de.bs);
    let (pa, sa) = gen_pieces(ctx, n, w);
    let (pb, sb) = gen_pieces(ctx, n, w);
    let (fa, fb) = (*ctx.rng.pick(&ALL_FILLS), *ctx.rng.pick(&ALL_FILLS));
    ctx.note("iv", J::s(hex_short(&iv)));
    ctx.note("msg", J::s(hex_short(&msg)));
    ctx.note("enc_schedule", pieces_json(&pa));
    ctx.note("dec_schedule", pieces_json(&pb));
    let mut e = match mk_blk(ctx, &de, *ctx.rng.clone().pick(&ALL_CTORS), &iv) {
        Ok(o) => o,
        Err(Some(p)) => return ctx.panic_violation(&format!("{}/ctor", name), &p),
        Err(None) => return ctx.violation(&format!("C01/ctor-err/{}", name), "constructor rejected right-length key/IV".into()),
    };
    let mut d = match mk_blk(ctx, &dd, Ctor::New, &iv) {
        Ok(o) => o,
        Err(Some(p)) => return ctx.panic_violation(&format!("{}/ctor", name), &p),
        Err(None) => return ctx.violation(&format!("C01/ctor-err/{}", name), "constructor rejected right-length key/IV".into()),
    };
    let c = match feed(ctx, e.as_mut(), &msg, &pa, fa) {
        Ok(f) => f,
        Err(p) => return ctx.panic_violation(&format!("{}/enc", name), &p),
    };
    if c.out.len() != msg.len() {
        return ctx.violation(&format!("C01/length/{}", name), format!("|enc(m)| = {} != |m| = {}", c.out.len(), msg.len()));
    }
    let m2 = match feed(ctx, d.as_mut(), &c.out, &pb, fb) {
        Ok(f) => f,
        Err(p) => return ctx.panic_violation(&format!("{}/dec", name), &p),
    };
    if m2.out != msg {
        let det = diff_desc("dec(enc(m)) vs m", &m2.out, &msg, de.bs);
        return ctx.violation(&format!("C01/roundtrip/{}", name), det);
    }
    if !c.canaries_ok || !m2.canaries_ok {
        return ctx.violation(&format!("C01/canary/{}", name), "bytes outside the caller's buffers were modified".into());
    }
    ctx.st.count(&format!("ok.{}", name));
    if n >= 2 {
        ctx.nontrivial = true;
        ctx.cell(format!("{}|{}|{}|{}|{}", name, ctx.cfg.name, len_class(n, w), sa, sb));
    }
}

fn padded(ctx: &mut Ctx) {
    let fam = *ctx.rng.pick(&FAMS);
    let (Some(de), Some(dd)) = (ctx.cfg.blk(fam, Direction::Enc).cloned(), ctx.cfg.blk(fam, Direction::Dec).cloned()) else { return };
    let pad = *ctx.rng.pick(&ALL_PADS);
    let (fe, fd) = (*ctx.rng.pick(&FORMS4), *ctx.rng.pick(&FORMS4));
    let name = format!("{}/padded", fam.name());
    ctx.subject(&name);
    let b = de.bs;
    let (iv, _) = mode_iv(ctx, de.iv_len);
    let (mut len, rc) = wl::nbytes(&mut ctx.rng, b.max(2), ctx.cfg.par, ctx.tier);
    if fam == Family::Cfb8 {
        len = len.min(300);
    }
    if pad == Pad::NoPadding {
        len -= len % b;
    }
    let (mut msg, _) = mode_data(ctx, len);
    if pad == Pad::Zero {
        // ZeroPadding is only reversible for messages not ending in a zero byte
        if let Some(l) = msg.last_mut() {
            if *l == 0 {
                *l = 0x61;
            }
        }
    }
    ctx.note("iv", J::s(hex_short(&iv)));
    ctx.note("msg", J::s(hex_short(&msg)));
    ctx.note("padding", J::s(pad.name()));
    ctx.note("enc_form", J::s(fe.name()));
    ctx.note("dec_form", J::s(fd.name()));
    let want_len = model::pad(pad, &msg, b).map(|p| p.len()).expect("harness: length fits padding");
    let e = match mk_blk(ctx, &de, Ctor::New, &iv) {
        Ok(o) => o,
        _ => return,
    };
    let d = match mk_blk(ctx, &dd, Ctor::New, &iv) {
        Ok(o) => o,
        _ => return,
    };
    // exactly enough room, or some slack
    let room = want_len + if ctx.rng.coin() { 0 } else { ctx.rng.range(1, 2 * b) };
    let fill = *ctx.rng.pick(&ALL_FILLS);
    let pre = fill.make(&mut ctx.rng, &msg, room);
    let mut out = Canary::from(&pre);
    ctx.st.api_calls += 1;
    let ct = match guard(|| e.padded(pad, fe, &msg, out.data_mut())) {
        Err(p) => return ctx.panic_violation(&format!("{}/enc", name), &p),
        Ok(Err(())) => return ctx.violation(&format!("C01/padded-enc-err/{}", name), format!("padded encryption of {} bytes into {} bytes of room failed", len, room)),
        Ok(Ok(v)) => v,
    };
    if ct.len() != want_len {
        return ctx.violation(&format!("C01/padded-length/{}", name), format!("|ct| = {} but the padding rule gives {}", ct.len(), want_len));
    }
    if !out.intact() {
        return ctx.violation(&format!("C01/canary/{}", name), "padded encryption wrote outside its output buffer".into());
    }
    let mut out2 = Canary::filled(ct.len() + if ctx.rng.coin() { 0 } else { 5 }, 0x77);
    // the inout form needs equal lengths
    let out2_slice_len = if fd == Form::Inout { ct.len() } else { out2.data().len() };
    ctx.st.api_calls += 1;
    let pt = match guard(|| d.padded(pad, fd, &ct, &mut out2.data_mut()[..out2_slice_len])) {
        Err(p) => return ctx.panic_violation(&format!("{}/dec", name), &p),
        Ok(Err(())) => return ctx.violation(&format!("C01/padded-dec-err/{}", name), "decrypting an honestly padded ciphertext failed".into()),
        Ok(Ok(v)) => v,
    };
    if pt != msg {
        let det = diff_desc("unpad(dec(enc(pad(m)))) vs m", &pt, &msg, b);
        return ctx.violation(&format!("C01/roundtrip/{}", name), det);
    }
    if !out2.intact() {
        return ctx.violation(&format!("C01/canary/{}", name), "padded decryption wrote outside its output buffer".into());
    }
    ctx.st.count(&format!("ok.{}", name));
    ctx.st.count(&format!("ok.padded.{}", pad.name()));
    ctx.nontrivial = len >= b;
    if ctx.nontrivial {
        ctx.cell(format!("{}|{}|{}|{}|{}>{}", name, ctx.cfg.name, pad.name(), rc, fe.name(), fd.name()));
    }
}

fn oneshot(ctx: &mut Ctx) {
    let fam = *ctx.rng.pick(&[Family::Cfb, Family::Cfb8]);
    let (Some(de), Some(dd)) = (ctx.cfg.blk(fam, Direction::Enc).cloned(), ctx.cfg.blk(fam, Direction::Dec).cloned()) else { return };
    let name = format!("{}/oneshot", fam.name());
    ctx.subject(&name);
    let b = ctx.cfg.bs;
    let (iv, _) = mode_iv(ctx, de.iv_len);
    let (mut len, rc) = wl::nbytes(&mut ctx.rng, b, ctx.cfg.par, ctx.tier);
    if fam == Family::Cfb8 {
        len = len.min(400);
    }
    let (msg, _) = mode_data(ctx, len);
    let (fe, fd) = (*ctx.rng.pick(&FORMS3), *ctx.rng.pick(&FORMS3));
    ctx.note("iv", J::s(hex_short(&iv)));
    ctx.note("msg", J::s(hex_short(&msg)));
    ctx.note("forms", J::s(format!("{}>{}", fe.name(), fd.name())));
    let (Ok(e), Ok(d)) = (mk_blk(ctx, &de, Ctor::New, &iv), mk_blk(ctx, &dd, Ctor::New, &iv)) else { return };
    // two different pre-fills: a byte equal to its pre-fill in both runs was not written
    let mut c1 = Canary::filled(len, 0x00);
    let mut c2 = Canary::filled(len, 0xFF);
    let e2 = e.clone_box();
    ctx.st.api_calls += 2;
    let r1 = guard(|| e.oneshot(fe, &msg, c1.data_mut()));
    let r2 = guard(|| e2.oneshot(fe, &msg, c2.data_mut()));
    match (r1, r2) {
        (Ok(Some(true)), Ok(Some(true))) => {}
        (Err(p), _) | (_, Err(p)) => return ctx.panic_violation(&format!("{}/enc", name), &p),
        _ => return ctx.violation(&format!("C01/oneshot-err/{}", name), "one-shot encryption with equal lengths returned Err".into()),
    }
    if fe != Form::InPlace {
        if let Some(i) = (0..len).find(|&i| c1.data()[i] == 0x00 && c2.data()[i] == 0xFF) {
            return ctx.violation(&format!("C01/length/{}", name), format!("output byte {} of {} was not written (|enc(m)| != |m|)", i, len));
        }
    }
    if c1.data() != c2.data() {
        return ctx.violation(&format!("C01/prefill-dependence/{}", name), "ciphertext depends on what the output buffer held".into());
    }
    let mut m2 = Canary::filled(len, 0x3C);
    ctx.st.api_calls += 1;
    match guard(|| d.oneshot(fd, c1.data(), m2.data_mut())) {
        Ok(Some(true)) => {}
        Err(p) => return ctx.panic_violation(&format!("{}/dec", name), &p),
        _ => return ctx.violation(&format!("C01/oneshot-err/{}", name), "one-shot decryption returned Err".into()),
    }
    if m2.data() != &msg[..] {
        let det = diff_desc("dec(enc(m)) vs m", m2.data(), &msg, b);
        return ctx.violation(&format!("C01/roundtrip/{}", name), det);
    }
    if !(c1.intact() && c2.intact() && m2.intact()) {
        return ctx.violation(&format!("C01/canary/{}", name), "write outside the output buffer".into());
    }
    ctx.st.count(&format!("ok.{}", name));
    if len % b != 0 {
        ctx.st.count(&format!("partial.{}", name));
    }
    if len > b {
        ctx.nontrivial = true;
        ctx.cell(format!("{}|{}|{}|{}>{}", name, ctx.cfg.name, rc, fe.name(), fd.name()));
    }
}

fn buffered(ctx: &mut Ctx) {
    let (Some(de), Some(dd)) = (ctx.cfg.buf(Direction::Enc).cloned(), ctx.cfg.buf(Direction::Dec).cloned()) else { return };
    let name = "cfb-buf".to_string();
    ctx.subject(&name);
    let b = ctx.cfg.bs;
    let (iv, _) = mode_iv(ctx, b);
    let (len, rc) = wl::nbytes(&mut ctx.rng, b, ctx.cfg.par, ctx.tier);
    let (msg, _) = mode_data(ctx, len);
    let (s1, c1) = wl::byte_schedule(&mut ctx.rng, len, b);
    let (s2, c2) = wl::byte_schedule(&mut ctx.rng, len, b);
    ctx.note("iv", J::s(hex_short(&iv)));
    ctx.note("msg", J::s(hex_short(&msg)));
    ctx.note("enc_pieces", J::Arr(s1.iter().map(|x| J::i(*x as i64)).collect()));
    ctx.note("dec_pieces", J::Arr(s2.iter().map(|x| J::i(*x as i64)).collect()));
    let key = ctx.key.clone();
    let r = guard(|| {
        let mut e = (de.mk)(Ctor::New, &key, &iv).unwrap();
        let mut d = (dd.mk)(Ctor::New, &key, &iv).unwrap();
        let mut buf = msg.clone();
        let mut off = 0;
        for &k in &s1 {
            e.apply(&mut buf[off..off + k]);
            off += k;
        }
        let ct = buf.clone();
        off = 0;
        for &k in &s2 {
            d.apply(&mut buf[off..off + k]);
            off += k;
        }
        (ct, buf)
    });
    ctx.st.api_calls += (s1.len() + s2.len()) as u64;
    match r {
        Err(p) => ctx.panic_violation(&name, &p),
        Ok((_, back)) => {
            if back != msg {
                let det = diff_desc("dec(enc(m)) vs m", &back, &msg, b);
                return ctx.violation(&format!("C01/roundtrip/{}", name), det);
            }
            ctx.st.count(&format!("ok.{}", name));
            if len > b {
                ctx.nontrivial = true;
                ctx.cell(format!("{}|{}|{}|{}|{}", name, ctx.cfg.name, rc, c1, c2));
            }
        }
    }
}

/// byte-level stream ciphers: applying the keystream twice is the identity, including
/// across a seek back to the start offset
fn stream(ctx: &mut Ctx) {
    if ctx.cfg.streams.is_empty() {
        return;
    }
    let d = ctx.rng.pick(&ctx.cfg.streams).clone();
    let name = format!("{}/stream", d.flavor.name());
    ctx.subject(&name);
    let b = ctx.cfg.bs;
    let (iv, _) = stream_iv(ctx, d.flavor, b);
    let (len, rc) = wl::nbytes(&mut ctx.rng, b, ctx.cfg.par, ctx.tier);
    let (msg, _) = mode_data(ctx, len);
    let (s1, c1) = wl::byte_schedule(&mut ctx.rng, len, b);
    let (s2, c2) = wl::byte_schedule(&mut ctx.rng, len, b);
    // stay clear of the end of the keystream: that is C11's subject
    let start: u128 = if d.flavor.seekable() && ctx.rng.coin() { ctx.rng.below(5 * b) as u128 } else { 0 };
    let use_seek_back = d.flavor.seekable() && ctx.rng.coin();
    ctx.note("iv", J::s(hex_short(&iv)));
    ctx.note("msg", J::s(hex_short(&msg)));
    ctx.note("start", J::s(start.to_string()));
    ctx.note("seek_back", J::Bool(use_seek_back));
    ctx.note("pieces1", J::Arr(s1.iter().map(|x| J::i(*x as i64)).collect()));
    ctx.note("pieces2", J::Arr(s2.iter().map(|x| J::i(*x as i64)).collect()));
    let key = ctx.key.clone();
    let forms: Vec<Form> = (0..s1.len() + s2.len()).map(|_| *ctx.rng.pick(&FORMS3)).collect();
    let fills: Vec<Fill> = (0..s1.len() + s2.len()).map(|_| *ctx.rng.pick(&ALL_FILLS)).collect();
    let mut frng = ctx.rng.clone();
    let r = guard(|| -> Result<(Vec<u8>, Vec<u8>), String> {
        let mut a = (d.mk)(Ctor::New, &key, &iv).map_err(|_| "ctor".to_string())?;
        if start != 0 {
            if a.try_seek(SeekTy::U64, start) != Some(true) {
                return Err("seek to start failed".into());
            }
        }
        let mut run = |o: &mut Box<dyn StreamObj>, data: &[u8], sched: &[usize], fo: usize| -> Result<Vec<u8>, String> {
            let mut out = Vec::with_capacity(data.len());
            let mut off = 0;
            for (j, &k) in sched.iter().enumerate() {
                let pre = fills[fo + j].make(&mut frng, &data[off..off + k], k);
                let mut ob = Canary::from(&pre);
                if !o.try_apply(forms[fo + j], &data[off..off + k], ob.data_mut()) {
                    return Err(format!("try_apply of {} bytes returned Err far from the end of the keystream", k));
                }
                if !ob.intact() {
                    return Err("canary".into());
                }
                out.extend_from_slice(ob.data());
                off += k;
            }
            Ok(out)
        };
        let ct = run(&mut a, &msg, &s1, 0)?;
        let back = if use_seek_back {
            if a.try_seek(SeekTy::U128, start) != Some(true) {
                return Err("seek back failed".into());
            }
            run(&mut a, &ct, &s2, s1.len())?
        } else {
            let mut b2 = (d.mk)(Ctor::Slices, &key, &iv).map_err(|_| "ctor".to_string())?;
            if start != 0 && b2.try_seek(SeekTy::Usize, start) != Some(true) {
                return Err("seek to start failed".into());
            }
            run(&mut b2, &ct, &s2, s1.len())?
        };
        Ok((ct, back))
    });
    ctx.st.api_calls += (s1.len() + s2.len() + 2) as u64;
    match r {
        Err(p) => ctx.panic_violation(&name, &p),
        Ok(Err(e)) => ctx.violation(&format!("C01/stream-err/{}", name), e),
        Ok(Ok((ct, back))) => {
            if ct.len() != msg.len() {
                return ctx.violation(&format!("C01/length/{}", name), "length changed".into());
            }
            if back != msg {
                let det = diff_desc("apply(apply(m)) vs m", &back, &msg, b);
                return ctx.violation(&format!("C01/roundtrip/{}", name), det);
            }
            ctx.st.count(&format!("ok.{}", name));
            if len > b {
                ctx.nontrivial = true;
                ctx.cell(format!("{}|{}|{}|{}|{}|seekback={}", name, ctx.cfg.name, rc, c1, c2, use_seek_back));
            }
        }
    }
}

/// keystream cores driven block-wise: apply twice = identity
fn core(ctx: &mut Ctx) {
    if ctx.cfg.cores.is_empty() {
        return;
    }
    let d = ctx.rng.pick(&ctx.cfg.cores).clone();
    let name = format!("{}/core", d.flavor.name());
    ctx.subject(&name);
    let b = ctx.cfg.bs;
    let w = ctx.cfg.par;
    let (iv, _) = stream_iv(ctx, d.flavor, b);
    let (n, _) = wl::nblocks(&mut ctx.rng, w, b, ctx.tier);
    let (msg, _) = mode_data(ctx, n * b);
    let (s1, c1) = wl::schedule(&mut ctx.rng, n, w);
    let (s2, c2) = wl::schedule(&mut ctx.rng, n, w);
    let apply_ops = [CoreOp::ApplyBlockInout, CoreOp::ApplyBlocks, CoreOp::ApplyBlocksInout];
    let ops: Vec<CoreOp> = (0..s1.len() + s2.len()).map(|_| *ctx.rng.pick(&apply_ops)).collect();
    ctx.note("iv", J::s(hex_short(&iv)));
    ctx.note("msg", J::s(hex_short(&msg)));
    let key = ctx.key.clone();
    let r = guard(|| {
        let mut a = (d.mk)(Ctor::New, &key, &iv).unwrap();
        let mut bb = (d.mk)(Ctor::Inner, &key, &iv).unwrap();
        let mut run = |o: &mut Box<dyn CoreObj>, data: &[u8], sched: &[usize], fo: usize| {
            let mut out = Vec::new();
            let mut off = 0;
            for (j, &k) in sched.iter().enumerate() {
                let mut ob = vec![0xEEu8; k * b];
                o.op(ops[fo + j], &data[off..off + k * b], &mut ob);
                out.extend_from_slice(&ob);
                off += k * b;
            }
            out
        };
        let ct = run(&mut a, &msg, &s1, 0);
        let back = run(&mut bb, &ct, &s2, s1.len());
        (ct, back)
    });
    ctx.st.api_calls += (s1.len() + s2.len()) as u64;
    match r {
        Err(p) => ctx.panic_violation(&name, &p),
        Ok((_, back)) => {
            if back != msg {
                let det = diff_desc("apply(apply(m)) vs m", &back, &msg, b);
                return ctx.violation(&format!("C01/roundtrip/{}", name), det);
            }
            ctx.st.count(&format!("ok.{}", name));
            if n >= 2 {
                ctx.nontrivial = true;
                ctx.cell(format!("{}|{}|{}|{}|{}", name, ctx.cfg.name, len_class(n, w), c1, c2));
            }
        }
    }
}

fn cts(ctx: &mut Ctx) {
    if ctx.cfg.cts.is_empty() {
        return;
    }
    let d = ctx.rng.pick(&ctx.cfg.cts).clone();
    let name = format!("{}", d.var.name());
    ctx.subject(&name);
    let b = ctx.cfg.bs;
    let (iv, _) = mode_iv(ctx, b);
    // every length >= b is accepted
    let (extra, rc) = wl::nbytes(&mut ctx.rng, b, ctx.cfg.par, ctx.tier);
    let len = b + extra.min(wl::MAX_LONG_BYTES - b);
    let (msg, _) = mode_data(ctx, len);
    let (fe, fd) = (*ctx.rng.pick(&FORMS3), *ctx.rng.pick(&FORMS3));
    ctx.note("iv", J::s(hex_short(&iv)));
    ctx.note("msg", J::s(hex_short(&msg)));
    ctx.note("forms", J::s(format!("{}>{}", fe.name(), fd.name())));
    let key = ctx.key.clone();
    let (Ok(Ok(e)), Ok(Ok(dd))) = (guard(|| (d.mk)(Ctor::New, &key, &iv)), guard(|| (d.mk)(Ctor::Inner, &key, &iv))) else { return };
    let e2 = e.clone_box();
    let mut c1 = Canary::filled(len, 0x00);
    let mut c2 = Canary::filled(len, 0xFF);
    ctx.st.api_calls += 3;
    match (guard(|| e.run(Direction::Enc, fe, &msg, c1.data_mut())), guard(|| e2.run(Direction::Enc, fe, &msg, c2.data_mut()))) {
        (Ok(true), Ok(true)) => {}
        (Err(p), _) | (_, Err(p)) => return ctx.panic_violation(&format!("{}/enc", name), &p),
        _ => return ctx.violation(&format!("C01/cts-err/{}", name), format!("encrypting {} >= {} bytes returned Err", len, b)),
    }
    if fe != Form::InPlace {
        if let Some(i) = (0..len).find(|&i| c1.data()[i] == 0x00 && c2.data()[i] == 0xFF) {
            return ctx.violation(&format!("C01/length/{}", name), format!("ciphertext byte {} of {} was not written", i, len));
        }
    }
    let mut m2 = Canary::filled(len, 0x99);
    match guard(|| dd.run(Direction::Dec, fd, c1.data(), m2.data_mut())) {
        Ok(true) => {}
        Err(p) => return ctx.panic_violation(&format!("{}/dec", name), &p),
        Ok(false) => return ctx.violation(&format!("C01/cts-err/{}", name), "decrypting a ciphertext of accepted length returned Err".into()),
    }
    if m2.data() != &msg[..] {
        let det = diff_desc("dec(enc(m)) vs m", m2.data(), &msg, b);
        return ctx.violation(&format!("C01/roundtrip/{}", name), det);
    }
    if !(c1.intact() && c2.intact() && m2.intact()) {
        return ctx.violation(&format!("C01/canary/{}", name), "write outside the output buffer".into());
    }
    ctx.st.count(&format!("ok.{}", name));
    ctx.nontrivial = true;
    ctx.cell(format!("{}|{}|{}|n={}|{}>{}", name, ctx.cfg.name, rc, (len / b).min(4), fe.name(), fd.name()));
}
