//! C08 — byte-stream interfaces give the same bytes however the stream is cut into calls;
//! one-shot CFB / CFB-8 are prefix-preserving. (relative)

use super::common::*;
use crate::ctx::{ALL_FILLS, Canary, Ctx, diff_desc};
use crate::wl;
use bmv_core::subj::*;
use bmv_core::util::{J, guard, hex_short};

pub fn run(ctx: &mut Ctx) {
    match ctx.rng.below(10) {
        0..=4 => stream(ctx),
        5..=7 => buffered(ctx),
        _ => prefix(ctx),
    }
}

fn sched_counts(ctx: &mut Ctx, name: &str, sched: &[usize], b: usize) {
    if sched.iter().any(|&k| k == 0) {
        ctx.st.count(&format!("empty-piece.{}", name));
    }
    // piece ending exactly on a block boundary followed by a short one; straddling piece
    let mut pos = 0;
    let mut boundary_then_short = false;
    let mut straddle = false;
    for (i, &k) in sched.iter().enumerate() {
        let end = pos + k;
        if k > 0 && end % b == 0 && sched.get(i + 1).map(|&n| n > 0 && n < b).unwrap_or(false) {
            boundary_then_short = true;
        }
        if k > 0 && pos % b != 0 && pos / b != (end.saturating_sub(1)) / b {
            straddle = true;
        }
        pos = end;
    }
    if boundary_then_short {
        ctx.st.count(&format!("boundary-then-short.{}", name));
    }
    if straddle {
        ctx.st.count(&format!("straddle.{}", name));
    }
}

fn stream(ctx: &mut Ctx) {
    if ctx.cfg.streams.is_empty() {
        return;
    }
    let d = ctx.rng.pick(&ctx.cfg.streams).clone();
    let name = format!("{}/stream", d.flavor.name());
    ctx.subject(&name);
    let b = ctx.cfg.bs;
    let (iv, _) = stream_iv(ctx, d.flavor, b);
    let (len, rc) = wl::nbytes(&mut ctx.rng, b, ctx.cfg.par, ctx.tier);
    let (msg, _) = mode_data(ctx, len);
    let (sched, sc) = wl::byte_schedule(&mut ctx.rng, len, b);
    ctx.note("iv", J::s(hex_short(&iv)));
    ctx.note("msg", J::s(hex_short(&msg)));
    ctx.note("pieces", J::Arr(sched.iter().map(|x| J::i(*x as i64)).collect()));
    let key = ctx.key.clone();
    let forms: Vec<Form> = sched.iter().map(|_| *ctx.rng.pick(&FORMS3)).collect();
    let mut frng = ctx.rng.clone();
    let fills: Vec<_> = sched.iter().map(|_| *ctx.rng.pick(&ALL_FILLS)).collect();
    let r = guard(|| -> Result<(Vec<u8>, Vec<u8>, bool), String> {
        let mut whole = (d.mk)(Ctor::New, &key, &iv).map_err(|_| "ctor")?;
        let mut cut = (d.mk)(Ctor::New, &key, &iv).map_err(|_| "ctor")?;
        let mut w = vec![0u8; len];
        if !whole.try_apply(Form::B2b, &msg, &mut w) {
            return Err("whole-string call failed".into());
        }
        let mut out = Vec::with_capacity(len);
        let mut off = 0;
        let mut pos_ok = true;
        for (j, &k) in sched.iter().enumerate() {
            let pre = fills[j].make(&mut frng, &msg[off..off + k], k);
            let mut ob = Canary::from(&pre);
            if !cut.try_apply(forms[j], &msg[off..off + k], ob.data_mut()) {
                return Err(format!("piece {} ({} bytes) failed", j, k));
            }
            if !ob.intact() {
                return Err("canary".into());
            }
            out.extend_from_slice(ob.data());
            off += k;
            if let Some(Ok(p)) = cut.try_current_pos(SeekTy::U64) {
                pos_ok &= p == off as u128;
            }
        }
        Ok((w, out, pos_ok))
    });
    ctx.st.api_calls += sched.len() as u64 + 1;
    match r {
        Err(p) => ctx.panic_violation(&name, &p),
        Ok(Err(e)) => ctx.violation(&format!("C08/err/{}", name), e),
        Ok(Ok((w, out, _pos_ok))) => {
            if w != out {
                let det = diff_desc("concatenated pieces vs one call", &out, &w, b);
                return ctx.violation(&format!("C08/pieces/{}", name), det);
            }
            ctx.st.count(&format!("ok.{}", name));
            sched_counts(ctx, d.flavor.name(), &sched, b);
            if len > b && sched.len() >= 2 {
                ctx.nontrivial = true;
                ctx.cell(format!("{}|{}|{}|{}", name, ctx.cfg.name, rc, sc));
            }
        }
    }
}

fn buffered(ctx: &mut Ctx) {
    let dir = *ctx.rng.pick(&[Direction::Enc, Direction::Dec]);
    let Some(d) = ctx.cfg.buf(dir).cloned() else { return };
    let name = format!("cfb-buf/{}", dir.name());
    ctx.subject(&name);
    let b = ctx.cfg.bs;
    let (iv, _) = mode_iv(ctx, b);
    let (len, rc) = wl::nbytes(&mut ctx.rng, b, ctx.cfg.par, ctx.tier);
    let (msg, _) = mode_data(ctx, len);
    let (sched, sc) = wl::byte_schedule(&mut ctx.rng, len, b);
    ctx.note("iv", J::s(hex_short(&iv)));
    ctx.note("msg", J::s(hex_short(&msg)));
    ctx.note("pieces", J::Arr(sched.iter().map(|x| J::i(*x as i64)).collect()));
    let key = ctx.key.clone();
    let r = guard(|| -> Result<(Vec<u8>, Vec<u8>, u64), String> {
        let mut whole = (d.mk)(Ctor::New, &key, &iv).map_err(|_| "ctor")?;
        let mut cut = (d.mk)(Ctor::New, &key, &iv).map_err(|_| "ctor")?;
        let mut w = msg.clone();
        whole.apply(&mut w);
        let mut out = Vec::with_capacity(len);
        let mut off = 0;
        let mut other_repr = 0u64;
        for &k in &sched {
            let mut piece = Canary::from(&msg[off..off + k]);
            cut.apply(piece.data_mut());
            if !piece.intact() {
                return Err("canary".into());
            }
            out.extend_from_slice(piece.data());
            off += k;
            // (the value of the exported in-block position is an implementation detail - a lazy
            // implementation may report a full block as b rather than 0 - and C08 is about the
            // bytes only; it is observed, not judged)
            let (_, pos) = cut.state();
            if pos != off % b {
                other_repr += 1;
            }
        }
        Ok((w, out, other_repr))
    });
    ctx.st.api_calls += sched.len() as u64 + 1;
    match r {
        Err(p) => ctx.panic_violation(&name, &p),
        Ok(Err(e)) => ctx.violation(&format!("C08/canary/{}", name), e),
        Ok(Ok((w, out, other_repr))) => {
            ctx.st.count_n("observed.exported-position-is-not-bytes-mod-b(not judged)", other_repr);
            if w != out {
                let det = diff_desc("concatenated pieces vs one call", &out, &w, b);
                return ctx.violation(&format!("C08/pieces/{}", name), det);
            }
            ctx.st.count(&format!("ok.{}", name));
            sched_counts(ctx, &name, &sched, b);
            if len > b && sched.len() >= 2 {
                ctx.nontrivial = true;
                ctx.cell(format!("{}|{}|{}|{}", name, ctx.cfg.name, rc, sc));
            }
        }
    }
}

/// enc(m)[..k] = enc(m[..k]) for one-shot CFB and CFB-8, both directions
fn prefix(ctx: &mut Ctx) {
    let fam = *ctx.rng.pick(&[Family::Cfb, Family::Cfb8]);
    let dir = *ctx.rng.pick(&[Direction::Enc, Direction::Dec]);
    let Some(d) = ctx.cfg.blk(fam, dir).cloned() else { return };
    let name = format!("{}/prefix", subj_name(&d));
    ctx.subject(&name);
    let b = ctx.cfg.bs;
    let (iv, _) = mode_iv(ctx, d.iv_len);
    let (mut len, rc) = wl::nbytes(&mut ctx.rng, b, ctx.cfg.par, ctx.tier);
    if fam == Family::Cfb8 {
        len = len.min(300);
    }
    let (msg, _) = mode_data(ctx, len);
    ctx.note("iv", J::s(hex_short(&iv)));
    ctx.note("msg", J::s(hex_short(&msg)));
    // cut points: every k within the last two blocks + a few others
    let mut ks: Vec<usize> = (len.saturating_sub(2 * b)..=len).collect();
    for _ in 0..4 {
        ks.push(ctx.rng.range(0, len));
    }
    ks.push(0);
    ks.sort();
    ks.dedup();
    if ks.len() > 40 {
        // keep it bounded for large blocks
        let step = ks.len() / 40 + 1;
        ks = ks.into_iter().step_by(step).collect();
    }
    let Ok(full_obj) = mk_blk(ctx, &d, Ctor::New, &iv) else { return };
    let mut full = vec![0u8; len];
    ctx.st.api_calls += 1;
    match guard(|| full_obj.oneshot(Form::B2b, &msg, &mut full)) {
        Ok(Some(true)) => {}
        Ok(_) => return,
        Err(p) => return ctx.panic_violation(&name, &p),
    }
    for &k in &ks {
        let Ok(o) = mk_blk(ctx, &d, Ctor::New, &iv) else { return };
        let form = *ctx.rng.pick(&FORMS3);
        let mut out = Canary::filled(k, 0xB7);
        ctx.st.api_calls += 1;
        match guard(|| o.oneshot(form, &msg[..k], out.data_mut())) {
            Ok(Some(true)) => {}
            Ok(_) => return ctx.violation(&format!("C08/err/{}", name), "one-shot call failed".into()),
            Err(p) => return ctx.panic_violation(&name, &p),
        }
        if out.data() != &full[..k] {
            let det = format!("prefix length {} of {}: {}", k, len, diff_desc("f(m[..k]) vs f(m)[..k]", out.data(), &full[..k], b));
            return ctx.violation(&format!("C08/prefix/{}", name), det);
        }
        if !out.intact() {
            return ctx.violation(&format!("C08/canary/{}", name), "write outside the output".into());
        }
    }
    ctx.st.count(&format!("ok.{}", name));
    if len > b {
        ctx.nontrivial = true;
        ctx.cell(format!("{}|{}|{}", name, ctx.cfg.name, rc));
    }
}
