//! C17 — mode objects do not leak chaining state via Debug output or dropped memory.
//! Debug/AlgorithmName: constant-text predicate over varying key/IV/history.
//! Zeroize: raw-memory monitor over harness-owned storage; decided by the build with the
//! `zeroize` feature (subject), made observable by the build without it (control).

use super::c16::{Obj, Op};
use super::common::{mode_data, mode_iv, stream_iv};
use crate::ctx::Ctx;
use crate::wl;
use bmv_core::subj::*;
use bmv_core::util::{J, guard, hex_short};

pub fn run(ctx: &mut Ctx) {
    match ctx.rng.below(10) {
        0..=3 => debug_text(ctx),
        4..=7 => zeroize(ctx),
        _ => zeroize_state_map(ctx),
    }
}

/// Needle-free variant of the drop scan: two objects of one type under the SAME key but with
/// different IVs and histories. Storage bytes that differ between them are IV / nonce /
/// counter / feedback state (or padding); with feature zeroize every such byte must be zero
/// after drop, unless the liveness probe shows the object never reads it. This also sees
/// secrets shorter than 8 bytes (a 32-bit block counter) and values that are not among the
/// needles (a raw counter offset).
fn zeroize_state_map(ctx: &mut Ctx) {
    if cfg!(miri) {
        return;
    }
    let p = pool(ctx);
    if p.is_empty() {
        return;
    }
    let mk = ctx.rng.pick(&p).clone();
    let name = mk.name();
    ctx.subject(&name);
    ctx.note("check", J::s("zeroize-state-map"));
    let b = ctx.cfg.bs;
    let key = ctx.key.clone();
    let iv_a = ctx.rng.bytes(mk.iv_len(b));
    let iv_b = ctx.rng.bytes(mk.iv_len(b));
    let ops_a: Vec<Op> = (0..ctx.rng.range(1, 4)).map(|_| mk.gen_op(ctx)).collect();
    let ops_b: Vec<Op> = (0..ctx.rng.range(1, 4)).map(|_| mk.gen_op(ctx)).collect();
    let probes: Vec<Op> = (0..5).map(|_| mk.gen_op(ctx)).collect();
    ctx.note("iv_a", J::s(hex_short(&iv_a)));
    ctx.note("iv_b", J::s(hex_short(&iv_b)));
    // half of the histories look at the storage the way the allocator gets it back
    let freed = ctx.rng.coin();
    ctx.note("observed", J::s(if freed { "at dealloc (ordinary drop of the Box)" } else { "between drop_in_place and dealloc" }));
    ctx.st.count(if freed { "zeroize.state-map.observed-at-dealloc" } else { "zeroize.state-map.observed-before-dealloc" });
    set_drop_scan_freed(freed);
    let r = guard(|| {
        let mut a = mk.make(&key, &iv_a);
        let mut bo = mk.make(&key, &iv_b);
        for op in &ops_a {
            a.step(op);
        }
        for op in &ops_b {
            bo.step(op);
        }
        // the buffered CFB types keep their in-block position in a usize field; it is the
        // public number of bytes processed mod b, not "IV, nonce, counter or feedback state",
        // and C17 does not demand that it be wiped
        let pos_a: Option<usize> = if let Obj::Buf(o) = &a { Some(o.state().1) } else { None };
        let scan = |o: Obj| match o {
            Obj::Blk(o) => o.drop_scan(),
            Obj::Buf(o) => o.drop_scan(),
            Obj::Stream(o) => o.drop_scan(),
            Obj::Core(o) => o.drop_scan(),
        };
        (scan(a), scan(bo), pos_a)
    });
    set_drop_scan_freed(false);
    ctx.st.api_calls += (ops_a.len() + ops_b.len() + 2) as u64;
    let (sa, sb, pos_a) = match r {
        Ok(v) => v,
        Err(p) => return ctx.panic_violation(&name, &p),
    };
    if sa.before.len() != sb.before.len() {
        return;
    }
    // state bytes of A that are still non-zero after drop, grouped into runs
    let n = sa.before.len();
    let mut runs: Vec<(usize, usize)> = Vec::new();
    let mut state_bytes = 0usize;
    let mut i = 0;
    while i < n {
        if sa.before[i] != sb.before[i] {
            state_bytes += 1;
        }
        if sa.before[i] != sb.before[i] && sa.after[i] != 0 {
            let s0 = i;
            while i < n && sa.before[i] != sb.before[i] && sa.after[i] != 0 {
                i += 1;
            }
            runs.push((s0, i - s0));
        } else {
            i += 1;
        }
    }
    ctx.st.count(&format!("zeroize.state-map.scanned.{}", name));
    ctx.st.count_n("zeroize.state-map.state-bytes", state_bytes as u64);
    if state_bytes > 0 {
        ctx.st.count(&format!("zeroize.state-map.saw-state.{}", name));
    }
    if !runs.is_empty() {
        ctx.st.count(&format!("zeroize.state-map.after-drop-nonzero.{}", name));
        if cfg!(feature = "zeroize") {
            for &(off, len) in runs.iter().take(6) {
                if let Some(pos) = pos_a {
                    // is this run the `pos` word? (aligned usize equal to the exported position)
                    let w0 = off / 8 * 8;
                    if off + len <= w0 + 8 && w0 + 8 <= n && sa.after[w0..w0 + 8] == (pos as u64).to_le_bytes() {
                        ctx.st.count("zeroize.state-map.buffered-cfb-position-not-demanded");
                        continue;
                    }
                }
                if bytes_are_live(&mk, &key, &iv_a, &ops_a, &probes, off, len) {
                    return ctx.violation(
                        &format!("C17/zeroize-state/{}", name),
                        format!(
                            "after drop (feature zeroize on) {} state byte(s) at offset {} of the object's {} bytes are still non-zero ({}); they differ between two instances under one key (so they are IV/nonce/counter/feedback state) and the object reads them (flipping them changes its behaviour)",
                            len,
                            off,
                            n,
                            hex_short(&sa.after[off..off + len])
                        ),
                    );
                }
            }
            ctx.st.count("zeroize.state-map.dead-bytes-ignored");
        }
    }
    ctx.nontrivial = true;
    ctx.cell(format!("zeroize-state-map|{}|{}", name, ctx.cfg.name));
}

#[derive(Clone)]
enum Mk {
    Blk(BlkDesc),
    Buf(BufDesc),
    Stream(StreamDesc),
    Core(CoreDesc),
}
impl Mk {
    fn name(&self) -> String {
        match self {
            Mk::Blk(d) => format!("{}/{}", d.fam.name(), d.dir.name()),
            Mk::Buf(d) => format!("cfb-buf/{}", d.dir.name()),
            Mk::Stream(d) => format!("{}/stream", d.flavor.name()),
            Mk::Core(d) => format!("{}/core", d.flavor.name()),
        }
    }
    fn iv_len(&self, b: usize) -> usize {
        match self {
            Mk::Blk(d) => d.iv_len,
            _ => b,
        }
    }
    fn make(&self, key: &[u8], iv: &[u8]) -> Obj {
        match self {
            Mk::Blk(d) => Obj::Blk((d.mk)(Ctor::New, key, iv).expect("contract: constructor rejected a key/IV of the right length")),
            Mk::Buf(d) => Obj::Buf((d.mk)(Ctor::New, key, iv).expect("contract: constructor rejected a key/IV of the right length")),
            Mk::Stream(d) => Obj::Stream((d.mk)(Ctor::New, key, iv).expect("contract: constructor rejected a key/IV of the right length")),
            Mk::Core(d) => Obj::Core((d.mk)(Ctor::New, key, iv).expect("contract: constructor rejected a key/IV of the right length")),
        }
    }
    fn gen_op(&self, ctx: &mut Ctx) -> Op {
        let b = ctx.cfg.bs;
        let w = ctx.cfg.par.max(1);
        let rng = &mut ctx.rng;
        match self {
            Mk::Blk(d) => {
                let n = rng.range(0, 2 * w + 1);
                let n = if d.bs == 1 { rng.range(0, 2 * b + 1) } else { n };
                Op::Blk(wl::any_bkind(rng), rng.bytes(n.min((2048 / d.bs.max(1)).max(1)) * d.bs))
            }
            Mk::Buf(_) => {
                let n = rng.range(0, 3 * b);
                Op::Buf(rng.bytes(n))
            }
            Mk::Stream(d) => {
                if d.flavor.seekable() && rng.chance(1, 5) {
                    Op::Seek(rng.below(6 * b) as u128)
                } else {
                    let n = rng.range(0, 3 * b);
                    Op::Apply(*rng.pick(&FORMS3), rng.bytes(n))
                }
            }
            Mk::Core(d) => {
                if d.flavor.seekable() && rng.chance(1, 6) {
                    Op::SetPos(rng.below(1000) as u128)
                } else {
                    let n = rng.range(0, 2 * w + 1);
                    Op::Core(*rng.pick(&ALL_COREOPS), rng.bytes(n * b))
                }
            }
        }
    }
}

fn pool(ctx: &Ctx) -> Vec<Mk> {
    let mut p: Vec<Mk> = Vec::new();
    p.extend(ctx.cfg.blk.iter().cloned().map(Mk::Blk));
    p.extend(ctx.cfg.buf.iter().cloned().map(Mk::Buf));
    p.extend(ctx.cfg.streams.iter().cloned().map(Mk::Stream));
    p.extend(ctx.cfg.cores.iter().cloned().map(Mk::Core));
    p
}

fn texts(o: &Obj) -> Vec<(&'static str, String)> {
    match o {
        Obj::Blk(o) => vec![("debug", o.debug()), ("debug#", o.debug_alt()), ("alg_name", o.alg_name())],
        Obj::Buf(o) => vec![("debug", o.debug()), ("debug#", o.debug_alt()), ("alg_name", o.alg_name())],
        Obj::Stream(o) => vec![("debug", o.debug()), ("debug#", o.debug_alt()), ("core_debug", o.core_debug()), ("alg_name", o.alg_name())],
        Obj::Core(o) => vec![("debug", o.debug()), ("debug#", o.debug_alt()), ("alg_name", o.alg_name())],
    }
}

/// the decimal list after `buffer_data: [` in a wrapper rendering, and the text without it
fn split_buffer_data(t: &str) -> Option<(String, Vec<u8>)> {
    let key = "buffer_data: [";
    let i = t.find(key)?;
    let rest = &t[i + key.len()..];
    let j = rest.find(']')?;
    let list = &rest[..j];
    let mut v = Vec::new();
    for tok in list.split(',') {
        let tok = tok.trim();
        if tok.is_empty() {
            continue;
        }
        v.push(tok.parse::<u8>().ok()?);
    }
    let mut stripped = String::new();
    stripped.push_str(&t[..i + key.len()]);
    stripped.push_str(&rest[j..]);
    Some((stripped, v))
}

fn debug_text(ctx: &mut Ctx) {
    let p = pool(ctx);
    if p.is_empty() {
        return;
    }
    let mk = ctx.rng.pick(&p).clone();
    let name = mk.name();
    ctx.subject(&name);
    let b = ctx.cfg.bs;
    ctx.note("check", J::s("debug-text"));
    // variants: different key, IV and history; texts are collected after every operation
    let mut all: Vec<(String, &'static str, String, Option<Vec<Vec<u8>>>)> = Vec::new(); // (variant, kind, text, keystream blocks the cipher produced)
    for v in 0..3 {
        let key = if v == 0 { ctx.key.clone() } else { ctx.rng.bytes(ctx.cfg.key_len) };
        let (iv, _) = if let Mk::Stream(d) = &mk { stream_iv(ctx, d.flavor, b) } else { mode_iv(ctx, mk.iv_len(b)) };
        let nops = ctx.rng.range(0, 4);
        let ops: Vec<Op> = (0..nops).map(|_| mk.gen_op(ctx)).collect();
        let r = guard(|| {
            bmv_core::spy::log_start();
            let mut o = mk.make(&key, &iv);
            let mut out = Vec::new();
            for (k, t) in texts(&o) {
                out.push((format!("v{}@0", v), k, t, None));
            }
            for op in ops.iter() {
                o.step(op);
            }
            // Every keystream block the spy cipher produced for this object (construction
            // included; an implementation may generate keystream ahead of need): if the Debug
            // text lists L bytes, they are claimed to be the last L bytes of one of them.
            let ks_blocks: Option<Vec<Vec<u8>>> = if matches!(o, Obj::Stream(_)) {
                Some(bmv_core::spy::log_take().into_iter().filter(|e| e.dir == bmv_core::spy::Dir::E).map(|e| e.out).collect())
            } else {
                None
            };
            let unused = ks_blocks;
            for (k, t) in texts(&o) {
                out.push((format!("v{}@{}", v, ops.len()), k, t, unused.clone()));
            }
            let _ = ops.len();
            out
        });
        ctx.st.api_calls += 2 * nops as u64 + 8;
        match r {
            Ok(v) => all.extend(v),
            Err(p) => return ctx.panic_violation(&name, &p),
        }
    }
    for kind in ["debug", "debug#", "core_debug", "alg_name"] {
        let of_kind: Vec<&(String, &'static str, String, Option<Vec<Vec<u8>>>)> = all.iter().filter(|x| x.1 == kind).collect();
        if of_kind.is_empty() {
            continue;
        }
        let first = &of_kind[0].2;
        if let Some(bad) = of_kind.iter().find(|x| &x.2 != first) {
            // classify what varies: only the `buffer_data` list of a wrapper rendering?
            let stripped: Vec<Option<(String, Vec<u8>)>> = of_kind.iter().map(|x| split_buffer_data(&x.2)).collect();
            let only_buffer_data = stripped.iter().all(|s| s.is_some()) && stripped.iter().all(|s| s.as_ref().unwrap().0 == stripped[0].as_ref().unwrap().0);
            if only_buffer_data {
                // ... and does the list equal the not yet consumed keystream of the current block?
                let mut witnessed = None;
                let mut all_match = true;
                for (x, s) in of_kind.iter().zip(&stripped) {
                    let list = &s.as_ref().unwrap().1;
                    match &x.3 {
                        Some(blocks) => {
                            if list.is_empty() || blocks.iter().any(|blk| list.len() <= blk.len() && blk.ends_with(list)) {
                                if !list.is_empty() {
                                    witnessed = Some((x.0.clone(), list.clone()));
                                }
                            } else {
                                all_match = false;
                            }
                        }
                        None => {
                            if !list.is_empty() {
                                all_match = false;
                            }
                        }
                    }
                }
                if let (true, Some((variant, list))) = (all_match, witnessed) {
                    return ctx.violation(
                        "C17/debug/stream-wrapper/buffer_data=unused-keystream",
                        format!("{}: {} text differs between instances only inside `buffer_data`, which lists exactly the not yet consumed keystream bytes of the current block, e.g. {:?} ({})", name, kind, list, variant),
                    );
                }
            }
            return ctx.violation(
                &format!("C17/debug/text-varies/{}", name),
                format!("{} text depends on key/IV/position/data: {:?} vs {:?}", kind, first.chars().take(200).collect::<String>(), bad.2.chars().take(200).collect::<String>()),
            );
        }
    }
    ctx.st.count(&format!("debug-constant.{}", name));
    ctx.st.count("debug.variants");
    ctx.nontrivial = true;
    ctx.cell(format!("debug|{}|{}", name, ctx.cfg.name));
}

fn windows(v: &[u8], out: &mut Vec<(Vec<u8>, &'static str)>, what: &'static str) {
    if v.len() < 8 {
        return;
    }
    for wdw in v.windows(8) {
        let mut distinct = [false; 256];
        let mut n = 0;
        for &x in wdw {
            if !distinct[x as usize] {
                distinct[x as usize] = true;
                n += 1;
            }
        }
        if n < 6 {
            continue; // low-entropy window: would match zeroed memory or counters
        }
        out.push((wdw.to_vec(), what));
        let mut r = wdw.to_vec();
        r.reverse();
        out.push((r, what));
    }
}

/// (number of needles found, [(what, offset)] of the hits, at most 6)
fn count_hits(mem: &[u8], needles: &[(Vec<u8>, &'static str)]) -> (usize, Vec<(&'static str, usize)>) {
    let mut hits = 0;
    let mut which = Vec::new();
    if mem.len() < 8 {
        return (0, which);
    }
    for (n, what) in needles {
        if let Some(off) = mem.windows(8).position(|w| w == &n[..]) {
            hits += 1;
            if which.len() < 6 && !which.iter().any(|(_, o): &(&str, usize)| (*o as i64 - off as i64).abs() < 8) {
                which.push((*what, off));
            }
        }
    }
    (hits, which)
}

/// Liveness probe: are the 8 bytes at `off` state the object actually uses? Two fresh objects
/// replay the history; one gets those bytes flipped in its raw storage; then both are driven
/// through the same probe operations. Identical behaviour = dead bytes (alignment padding that
/// merely kept stale stack data when the value was moved to the heap), not object state.
fn bytes_are_live(mk: &Mk, key: &[u8], iv: &[u8], ops: &[Op], probes: &[Op], off: usize, len: usize) -> bool {
    let r = guard(|| {
        let mut a = mk.make(key, iv);
        let mut b = mk.make(key, iv);
        for op in ops {
            a.step(op);
            b.step(op);
        }
        b.poke(off, &[0x5A, 0xC3, 0x96, 0x0F, 0xF0, 0x69, 0x3C, 0xA5][..len.clamp(1, 8)]);
        let ra: Vec<Vec<u8>> = probes.iter().map(|op| a.step(op)).collect();
        let rb: Vec<Vec<u8>> = probes.iter().map(|op| b.step(op)).collect();
        ra != rb
    });
    // a panic after the flip also means the bytes mattered
    r.unwrap_or(true)
}

fn zeroize(ctx: &mut Ctx) {
    if cfg!(miri) {
        return; // reading dropped storage is exactly what Miri forbids; native builds only
    }
    let p = pool(ctx);
    if p.is_empty() || ctx.cfg.bs < 8 {
        ctx.st.count("zeroize.skipped.block<8-bytes(no 8-byte window exists)");
        return;
    }
    let mk = ctx.rng.pick(&p).clone();
    let name = mk.name();
    ctx.subject(&name);
    ctx.note("check", J::s("zeroize-drop-scan"));
    let b = ctx.cfg.bs;
    let key = ctx.key.clone();
    // random IV: needles must be high-entropy
    let iv = ctx.rng.bytes(mk.iv_len(b));
    let nops = ctx.rng.range(0, 4);
    let ops: Vec<Op> = (0..nops).map(|_| mk.gen_op(ctx)).collect();
    ctx.note("iv", J::s(hex_short(&iv)));
    ctx.note("ops", J::i(nops as i64));
    let freed = ctx.rng.coin();
    ctx.note("observed", J::s(if freed { "at dealloc (ordinary drop of the Box)" } else { "between drop_in_place and dealloc" }));
    ctx.st.count(if freed { "zeroize.observed-at-dealloc" } else { "zeroize.observed-before-dealloc" });
    set_drop_scan_freed(freed);
    let rc = &ctx.rc;
    let r = guard(|| {
        let mut o = mk.make(&key, &iv);
        let mut twin = mk.make(&key, &iv);
        for op in &ops {
            o.step(op);
            twin.step(op);
        }
        let mut needles: Vec<(Vec<u8>, &'static str)> = Vec::new();
        windows(&iv, &mut needles, "IV");
        let e_of = |v: &[u8]| -> Option<Vec<u8>> {
            if v.len() != b {
                return None;
            }
            let mut t = v.to_vec();
            rc.e(&mut t);
            Some(t)
        };
        match (&o, &mut twin) {
            (Obj::Blk(o), _) => {
                if let Some(s) = o.iv_state() {
                    windows(&s, &mut needles, "exported iv_state");
                    // CFB keeps E(chaining value)
                    if let Some(es) = e_of(&s) {
                        windows(&es, &mut needles, "E(iv_state)");
                    }
                }
            }
            (Obj::Buf(o), _) => {
                let (blk, _) = o.state();
                windows(&blk, &mut needles, "exported state block");
            }
            (Obj::Stream(o), Obj::Stream(t)) => {
                if let Some(s) = o.core_iv_state() {
                    windows(&s, &mut needles, "core iv_state (next counter block)");
                    if let Some(es) = e_of(&s) {
                        windows(&es, &mut needles, "E(core iv_state)");
                    }
                }
                if let Some(e) = e_of(&iv) {
                    windows(&e, &mut needles, "E(IV)");
                }
                // unused keystream of the current block
                let mut shadow: u128 = 0;
                for op in ops.iter() {
                    match op {
                        Op::Apply(_, d) => shadow += d.len() as u128,
                        Op::Seek(p) => shadow = *p,
                        _ => {}
                    }
                }
                let left = (b - (shadow % b as u128) as usize) % b;
                let z = vec![0u8; left];
                let mut ks = vec![0u8; left];
                if t.try_apply(Form::B2b, &z, &mut ks) {
                    windows(&ks, &mut needles, "buffered (unused) keystream");
                }
            }
            (Obj::Core(o), _) => {
                if let Some(s) = o.iv_state() {
                    windows(&s, &mut needles, "core iv_state (next counter block)");
                    if let Some(es) = e_of(&s) {
                        windows(&es, &mut needles, "E(core iv_state)");
                    }
                }
                if let Some(e) = e_of(&iv) {
                    windows(&e, &mut needles, "E(IV)");
                }
            }
            _ => {}
        }
        let scan = match o {
            Obj::Blk(o) => o.drop_scan(),
            Obj::Buf(o) => o.drop_scan(),
            Obj::Stream(o) => o.drop_scan(),
            Obj::Core(o) => o.drop_scan(),
        };
        let before = count_hits(&scan.before, &needles);
        let after = count_hits(&scan.after, &needles);
        if std::env::var("BMV_DUMP").is_ok() {
            eprintln!("IV     {}", bmv_core::util::hex(&iv));
            for (i, (b4, af)) in scan.before.chunks(16).zip(scan.after.chunks(16)).enumerate() {
                eprintln!("{:4} {} | {}", i * 16, bmv_core::util::hex(b4), bmv_core::util::hex(af));
            }
        }
        (needles.len(), before, after, scan.before.len())
    });
    set_drop_scan_freed(false);
    let probes: Vec<Op> = (0..5).map(|_| mk.gen_op(ctx)).collect();
    ctx.st.api_calls += 2 * nops as u64 + 4;
    match r {
        Err(p) => ctx.panic_violation(&name, &p),
        Ok((nneedles, before, after, size)) => {
            ctx.st.count(&format!("zeroize.scanned.{}", name));
            ctx.st.count_n("zeroize.needles", nneedles as u64);
            ctx.st.count_n("zeroize.bytes-scanned", size as u64);
            if before.0 > 0 {
                ctx.st.count(&format!("zeroize.live-hit.{}", name));
            }
            if after.0 > 0 {
                ctx.st.count(&format!("zeroize.after-drop-hit.{}", name));
                if cfg!(feature = "zeroize") {
                    // only bytes the object actually uses are "its IV, nonce, counter and
                    // feedback state": alignment padding that kept stale stack data when the
                    // value was moved into the storage is excluded by a liveness probe
                    let live: Vec<(&str, usize)> = after.1.iter().cloned().filter(|(_, off)| bytes_are_live(&mk, &key, &iv, &ops, &probes, *off, 8)).collect();
                    if let Some((what, off)) = live.first() {
                        return ctx.violation(
                            &format!("C17/zeroize/{}", name),
                            format!(
                                "after drop (feature zeroize on) {} of {} secret 8-byte windows are still present in the object's {} bytes of storage; e.g. {} at byte offset {} (live: flipping these bytes changes the object's behaviour)",
                                after.0, nneedles, size, what, off
                            ),
                        );
                    }
                    ctx.st.count("zeroize.stale-padding-hit-ignored(dead bytes)");
                }
            }
            ctx.nontrivial = true;
            ctx.cell(format!("zeroize|{}|{}|ops={}", name, ctx.cfg.name, nops.min(2)));
        }
    }
}
