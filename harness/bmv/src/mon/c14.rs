//! C14 — alternative front-ends to the same mode are interchangeable. (relative)

use super::common::*;
use crate::ctx::{Ctx, Fill, diff_desc};
use crate::wl;
use bmv_core::subj::*;
use bmv_core::util::{J, guard, hex_short};

pub fn run(ctx: &mut Ctx) {
    if crate::ctx::focus() == "stream" {
        return match ctx.rng.below(6) {
            0..=2 => core_vs_stream(ctx),
            3 => oneshot_vs_bytes(ctx),
            _ => ctors(ctx),
        };
    }
    match ctx.rng.below(13) {
        0..=2 => cfb_fronts(ctx),
        3..=4 => ofb_fronts(ctx),
        5..=6 => core_vs_stream(ctx),
        12 => oneshot_vs_bytes(ctx),
        7..=9 => cts_whole_blocks(ctx),
        _ => ctors(ctx),
    }
}

/// buffered CFB (any chunking) == block-level CFB == one-shot CFB
fn cfb_fronts(ctx: &mut Ctx) {
    let dir = *ctx.rng.pick(&[Direction::Enc, Direction::Dec]);
    let (Some(db), Some(dbuf)) = (ctx.cfg.blk(Family::Cfb, dir).cloned(), ctx.cfg.buf(dir).cloned()) else { return };
    let name = format!("cfb-fronts/{}", dir.name());
    ctx.subject(&name);
    let b = ctx.cfg.bs;
    let w = ctx.cfg.par;
    let (iv, _) = mode_iv(ctx, b);
    let (len, rc) = wl::nbytes(&mut ctx.rng, b, w, ctx.tier);
    let (msg, _) = mode_data(ctx, len);
    let nfull = len / b;
    let (sched, sc) = wl::byte_schedule(&mut ctx.rng, len, b);
    let (pieces, _) = gen_pieces(ctx, nfull, w);
    ctx.note("iv", J::s(hex_short(&iv)));
    ctx.note("msg", J::s(hex_short(&msg)));
    ctx.note("buf_pieces", J::Arr(sched.iter().map(|x| J::i(*x as i64)).collect()));
    ctx.note("block_schedule", pieces_json(&pieces));
    let key = ctx.key.clone();
    // one-shot
    let Ok(os) = mk_blk(ctx, &db, Ctor::New, &iv) else { return };
    let mut o1 = vec![0u8; len];
    ctx.st.api_calls += 1;
    match guard(|| os.oneshot(*[Form::InPlace, Form::B2b].get(len % 2).unwrap(), &msg, &mut o1)) {
        Ok(Some(true)) => {}
        Ok(_) => return,
        Err(p) => return ctx.panic_violation(&name, &p),
    }
    // buffered
    let r = guard(|| {
        let mut bo = (dbuf.mk)(Ctor::New, &key, &iv).unwrap();
        let mut buf = msg.clone();
        let mut off = 0;
        for &k in &sched {
            bo.apply(&mut buf[off..off + k]);
            off += k;
        }
        buf
    });
    ctx.st.api_calls += sched.len() as u64;
    let o2 = match r {
        Ok(v) => v,
        Err(p) => return ctx.panic_violation(&name, &p),
    };
    if o1 != o2 {
        let det = diff_desc("buffered CFB vs one-shot CFB", &o2, &o1, b);
        return ctx.violation(&format!("C14/cfb/buffered-vs-oneshot/{}", dir.name()), det);
    }
    // block level on the whole blocks
    let Ok(mut bl) = mk_blk(ctx, &db, Ctor::New, &iv) else { return };
    match feed(ctx, bl.as_mut(), &msg[..nfull * b], &pieces, Fill::Ones) {
        Ok(f) => {
            if f.out[..] != o1[..nfull * b] {
                let det = diff_desc("block-level CFB vs one-shot CFB (whole blocks)", &f.out, &o1[..nfull * b], b);
                return ctx.violation(&format!("C14/cfb/block-vs-oneshot/{}", dir.name()), det);
            }
        }
        Err(p) => return ctx.panic_violation(&name, &p),
    }
    ctx.st.count(&format!("ok.{}", name));
    if len > b {
        ctx.nontrivial = true;
        ctx.cell(format!("{}|{}|{}|{}", name, ctx.cfg.name, rc, sc));
    }
}

/// OfbCore as BlockModeEncrypt == BlockModeDecrypt == StreamCipherCore == Ofb byte stream
fn ofb_fronts(ctx: &mut Ctx) {
    let (Some(de), Some(dd), Some(dc), Some(ds)) =
        (ctx.cfg.blk(Family::OfbBlk, Direction::Enc).cloned(), ctx.cfg.blk(Family::OfbBlk, Direction::Dec).cloned(), ctx.cfg.core(Flavor::Ofb).cloned(), ctx.cfg.stream(Flavor::Ofb).cloned())
    else {
        return;
    };
    let name = "ofb-fronts".to_string();
    ctx.subject(&name);
    let b = ctx.cfg.bs;
    let w = ctx.cfg.par;
    let (iv, _) = mode_iv(ctx, b);
    let (n, _) = wl::nblocks(&mut ctx.rng, w, b, ctx.tier);
    let (msg, _) = mode_data(ctx, n * b);
    ctx.note("iv", J::s(hex_short(&iv)));
    ctx.note("msg", J::s(hex_short(&msg)));
    let key = ctx.key.clone();
    let (p1, s1) = gen_pieces(ctx, n, w);
    let (p2, _) = gen_pieces(ctx, n, w);
    let (Ok(mut e), Ok(mut d)) = (mk_blk(ctx, &de, Ctor::New, &iv), mk_blk(ctx, &dd, Ctor::New, &iv)) else { return };
    let fe = match feed(ctx, e.as_mut(), &msg, &p1, Fill::Random) {
        Ok(f) => f,
        Err(p) => return ctx.panic_violation(&name, &p),
    };
    let fd = match feed(ctx, d.as_mut(), &msg, &p2, Fill::Zero) {
        Ok(f) => f,
        Err(p) => return ctx.panic_violation(&name, &p),
    };
    if fe.out != fd.out {
        let det = diff_desc("OfbCore as block decryptor vs as block encryptor", &fd.out, &fe.out, b);
        return ctx.violation("C14/ofb/dec-vs-enc", det);
    }
    let (sizes, _) = wl::schedule(&mut ctx.rng, n, w);
    let (bsched, _) = wl::byte_schedule(&mut ctx.rng, n * b, b);
    let ops: Vec<CoreOp> = sizes.iter().map(|_| *ctx.rng.pick(&[CoreOp::ApplyBlockInout, CoreOp::ApplyBlocks, CoreOp::ApplyBlocksInout])).collect();
    let r = guard(|| {
        let mut c = (dc.mk)(Ctor::New, &key, &iv).unwrap();
        let mut oc = Vec::new();
        let mut off = 0;
        for (k, op) in sizes.iter().zip(&ops) {
            let mut o = vec![0x5Au8; k * b];
            c.op(*op, &msg[off..off + k * b], &mut o);
            oc.extend_from_slice(&o);
            off += k * b;
        }
        let mut s = (ds.mk)(Ctor::New, &key, &iv).unwrap();
        let mut os = msg.clone();
        let mut off = 0;
        for &k in &bsched {
            let piece = os[off..off + k].to_vec();
            assert!(s.try_apply(Form::InPlace, &piece, &mut os[off..off + k]));
            off += k;
        }
        (oc, os, c.iv_state(), s.core_iv_state())
    });
    ctx.st.api_calls += (sizes.len() + bsched.len()) as u64;
    match r {
        Err(p) => ctx.panic_violation(&name, &p),
        Ok((oc, os, stc, sts)) => {
            if oc != fe.out {
                let det = diff_desc("OfbCore as keystream core vs as block encryptor", &oc, &fe.out, b);
                return ctx.violation("C14/ofb/core-vs-enc", det);
            }
            if os != fe.out {
                let det = diff_desc("Ofb byte stream vs OfbCore as block encryptor", &os, &fe.out, b);
                return ctx.violation("C14/ofb/stream-vs-enc", det);
            }
            let ste = fe.states.last().cloned().flatten();
            if n > 0 && (stc != ste || sts != ste) {
                return ctx.violation("C14/ofb/state", "exported state differs between OFB front-ends".into());
            }
            ctx.st.count(&format!("ok.{}", name));
            if n >= 2 {
                ctx.nontrivial = true;
                ctx.cell(format!("{}|{}|{}|{}", name, ctx.cfg.name, len_class(n, w), s1));
            }
        }
    }
}

/// a CTR / BelT core driven block-wise equals the byte-level cipher
fn core_vs_stream(ctx: &mut Ctx) {
    let fls: Vec<Flavor> = ctx.cfg.cores.iter().map(|d| d.flavor).filter(|f| *f != Flavor::Ofb).collect();
    if fls.is_empty() {
        return;
    }
    let fl = super::common::pick_flavor(ctx, &fls);
    let (Some(dc), Some(ds)) = (ctx.cfg.core(fl).cloned(), ctx.cfg.stream(fl).cloned()) else { return };
    let name = format!("{}/core-vs-stream", fl.name());
    ctx.subject(&name);
    let b = ctx.cfg.bs;
    let w = ctx.cfg.par;
    let (iv, _) = stream_iv(ctx, fl, b);
    let (n, _) = wl::nblocks(&mut ctx.rng, w, b, ctx.tier);
    let (msg, _) = mode_data(ctx, n * b);
    let (sizes, s1) = wl::schedule(&mut ctx.rng, n, w);
    let (bsched, s2) = wl::byte_schedule(&mut ctx.rng, n * b, b);
    let ops: Vec<CoreOp> = sizes.iter().map(|_| *ctx.rng.pick(&[CoreOp::ApplyBlockInout, CoreOp::ApplyBlocks, CoreOp::ApplyBlocksInout])).collect();
    ctx.note("iv", J::s(hex_short(&iv)));
    ctx.note("msg", J::s(hex_short(&msg)));
    let key = ctx.key.clone();
    let r = guard(|| {
        let mut c = (dc.mk)(Ctor::New, &key, &iv).unwrap();
        let mut oc = Vec::new();
        let mut off = 0;
        for (k, op) in sizes.iter().zip(&ops) {
            let mut o = vec![0x5Au8; k * b];
            c.op(*op, &msg[off..off + k * b], &mut o);
            oc.extend_from_slice(&o);
            off += k * b;
        }
        let mut s = (ds.mk)(Ctor::New, &key, &iv).unwrap();
        let mut os = vec![0xA5u8; n * b];
        let mut off = 0;
        for &k in &bsched {
            assert!(s.try_apply(Form::B2b, &msg[off..off + k], &mut os[off..off + k]));
            off += k;
        }
        (oc, os, (c.get_block_pos(), c.iv_state(), c.remaining_blocks()), (s.core_block_pos(), s.core_iv_state(), s.core_remaining()))
    });
    ctx.st.api_calls += (sizes.len() + bsched.len()) as u64;
    match r {
        Err(p) => ctx.panic_violation(&name, &p),
        Ok((oc, os, stc, sts)) => {
            if oc != os {
                let det = diff_desc("byte-level cipher vs core driven block-wise", &os, &oc, b);
                return ctx.violation(&format!("C14/core-vs-stream/{}", fl.name()), det);
            }
            if stc != sts {
                return ctx.violation(&format!("C14/core-vs-stream-state/{}", fl.name()), format!("core {:?} vs wrapper's core {:?}", stc, sts));
            }
            ctx.st.count(&format!("ok.{}", name));
            if n >= 2 {
                ctx.nontrivial = true;
                ctx.cell(format!("{}|{}|{}|{}|{}", name, ctx.cfg.name, len_class(n, w), s1, s2));
            }
        }
    }
}

/// the keystream core's one-shot front-end (`try_apply_keystream_partial`) against the byte-level
/// cipher built from the identical core state: same verdict and same bytes, anywhere in the
/// keystream, including the last blocks before its end
fn oneshot_vs_bytes(ctx: &mut Ctx) {
    let fls: Vec<Flavor> = ctx.cfg.cores.iter().map(|d| d.flavor).filter(|f| f.seekable()).collect();
    if fls.is_empty() {
        return;
    }
    let fl = super::common::pick_flavor(ctx, &fls);
    let (Some(dc), Some(ds)) = (ctx.cfg.core(fl).cloned(), ctx.cfg.stream(fl).cloned()) else { return };
    let Some(mk_at) = ds.mk_at else { return };
    let name = format!("{}/oneshot-core-vs-bytes", fl.name());
    ctx.subject(&name);
    let b = ctx.cfg.bs;
    let limit = crate::model::limit_blocks(fl).unwrap();
    let (iv, _) = stream_iv(ctx, fl, b);
    let key = ctx.key.clone();
    let near = ctx.rng.chance(2, 3);
    let rem: u128 = if near { ctx.rng.below(6) as u128 } else { (limit - (wl::limb_u128(&mut ctx.rng) % limit)).max(9) };
    let start = limit - rem;
    let rem_b = rem.min(7) as usize * b;
    let cands: [usize; 10] = [rem_b, rem_b + 1, rem_b.saturating_sub(1), rem_b + b, rem_b + 3 * b, 4 * b, 15.min(6 * b), 1, 0, ctx.rng.range(0, 7 * b)];
    let len = *ctx.rng.pick(&cands);
    let need = len.div_ceil(b) as u128;
    let b2b = ctx.rng.coin();
    let (data, _) = mode_data(ctx, len);
    ctx.note("iv", J::s(hex_short(&iv)));
    ctx.note("start_block", J::s(start.to_string()));
    ctx.note("remaining_blocks", J::s(rem.to_string()));
    ctx.note("len", J::i(len as i64));
    ctx.note("b2b", J::Bool(b2b));
    let fill = *ctx.rng.pick(&crate::ctx::ALL_FILLS);
    let pre = fill.make(&mut ctx.rng, &data, len);
    let r = guard(|| {
        let mut core = (dc.mk)(Ctor::New, &key, &iv).unwrap();
        core.set_block_pos(start);
        let mut o1 = pre.clone();
        let r1 = core.partial(b2b, &data, &mut o1);
        let mut s = mk_at(&key, &iv, start);
        let mut o2 = pre.clone();
        let r2 = s.try_apply(if b2b { Form::B2b } else { Form::InPlace }, &data, &mut o2);
        (r1, o1, r2, o2)
    });
    ctx.st.api_calls += 4;
    let (r1, o1, r2, o2) = match r {
        Ok(v) => v,
        Err(p) => return ctx.panic_violation(&name, &p),
    };
    if r1 != r2 {
        // structural signature: is the core's verdict the one the dependency's `len % bs` formula gives?
        let m = len % b;
        let formula_blocks = if m == 0 { 0 } else { m + 1 };
        let formula_ok = (formula_blocks as u128) <= rem;
        let sig = if formula_ok == r1 { "verdict-follows-len-mod-bs-formula" } else { "other" };
        let which = if r1 { "core-accepts-bytes-refuse" } else { "core-refuses-bytes-accept" };
        return ctx.violation(
            &format!("C14/oneshot-core-vs-bytes/{}/{}", which, sig),
            format!(
                "{}: {} bytes ({} blocks) with {} blocks remaining: the core's try_apply_keystream_partial returned {} but the byte-level cipher built from the same core state returned {}",
                name,
                len,
                need,
                rem,
                if r1 { "Ok" } else { "Err" },
                if r2 { "Ok" } else { "Err" }
            ),
        );
    }
    if o1 != o2 {
        let det = diff_desc("one-shot core front-end vs byte-level cipher", &o1, &o2, b);
        return ctx.violation(&format!("C14/oneshot-core-vs-bytes-output/{}", fl.name()), det);
    }
    ctx.st.count(&format!("ok.{}", name));
    ctx.st.count(if near { "oneshot.near-the-end" } else { "oneshot.elsewhere" });
    if len > 0 {
        ctx.nontrivial = true;
        ctx.cell(format!("{}|{}|near={}|ok={}|b2b={}|r={}", name, ctx.cfg.name, near, r1, b2b, if len % b == 0 { 0 } else { 1 }));
    }
}

/// on whole blocks: CBC-CS1 == CBC-CS2 == plain CBC; CBC-CS3 == the same with the last two
/// blocks exchanged; ECB-CS* == raw block encryption (same exchange for CS3)
fn cts_whole_blocks(ctx: &mut Ctx) {
    if ctx.cfg.cts.is_empty() {
        return;
    }
    let d = ctx.rng.pick(&ctx.cfg.cts).clone();
    let dir = *ctx.rng.pick(&[Direction::Enc, Direction::Dec]);
    let name = format!("{}/{}/whole-blocks", d.var.name(), dir.name());
    ctx.subject(&name);
    let b = ctx.cfg.bs;
    let w = ctx.cfg.par;
    let (iv, _) = mode_iv(ctx, b);
    let n = match ctx.rng.below(5) {
        0 => 1,
        1 => 2,
        2 => 3,
        _ => wl::nblocks(&mut ctx.rng, w, b, ctx.tier).0.max(1),
    };
    let (data, _) = mode_data(ctx, n * b);
    ctx.note("iv", J::s(hex_short(&iv)));
    ctx.note("data", J::s(hex_short(&data)));
    ctx.note("n", J::i(n as i64));
    let key = ctx.key.clone();
    let swap_last_two = |v: &[u8]| -> Vec<u8> {
        let mut o = v.to_vec();
        if n >= 2 {
            let (a, bb) = o.split_at_mut((n - 1) * b);
            a[(n - 2) * b..].swap_with_slice(bb);
        }
        o
    };
    // the CTS result
    let Ok(Ok(o)) = guard(|| (d.mk)(Ctor::New, &key, &iv)) else { return };
    let mut got = vec![0u8; n * b];
    ctx.st.api_calls += 1;
    match guard(|| o.run(dir, Form::B2b, &data, &mut got)) {
        Ok(true) => {}
        Ok(false) => return ctx.violation(&format!("C14/cts-err/{}", name), "whole-block message rejected".into()),
        Err(p) => return ctx.panic_violation(&name, &p),
    }
    // the plain mode on the same blocks
    let cs3 = d.var.cs() == 3;
    let plain_in = if cs3 && dir == Direction::Dec { swap_last_two(&data) } else { data.clone() };
    let plain: Vec<u8> = if d.var.is_cbc() {
        let Some(pd) = ctx.cfg.blk(Family::Cbc, dir).cloned() else { return };
        let Ok(mut p) = mk_blk(ctx, &pd, Ctor::New, &iv) else { return };
        let (pieces, _) = gen_pieces(ctx, n, w);
        match feed(ctx, p.as_mut(), &plain_in, &pieces, Fill::Zero) {
            Ok(f) => f.out,
            Err(pn) => return ctx.panic_violation(&name, &pn),
        }
    } else {
        // raw block encryption / decryption
        let mut v = plain_in.clone();
        for blk in v.chunks_mut(b) {
            if dir == Direction::Enc { ctx.rc.e(blk) } else { ctx.rc.d(blk) }
        }
        v
    };
    let want = if cs3 && dir == Direction::Enc { swap_last_two(&plain) } else { plain };
    if got != want {
        let ncl = if n == 1 { "n=1" } else { "n>=2" };
        let det = format!("n = {}: {}", n, diff_desc("CTS on whole blocks vs plain mode", &got, &want, b));
        return ctx.violation(&format!("C14/cts-vs-plain/{}/{}/{}", d.var.name(), dir.name(), ncl), det);
    }
    ctx.st.count(&format!("ok.{}", name));
    ctx.st.count(&format!("cts-pair.{}.{}", d.var.name(), dir.name()));
    ctx.nontrivial = true;
    ctx.cell(format!("{}|{}|n={}", name, ctx.cfg.name, n.min(4)));
}

/// constructing from key bytes == constructing from an already keyed cipher
fn ctors(ctx: &mut Ctx) {
    let b = ctx.cfg.bs;
    let w = ctx.cfg.par;
    let key = ctx.key.clone();
    match ctx.rng.below(4) {
        0 | 1 => {
            if ctx.cfg.blk.is_empty() {
                return;
            }
            let d = ctx.rng.pick(&ctx.cfg.blk).clone();
            let name = format!("{}/ctors", subj_name(&d));
            ctx.subject(&name);
            let (iv, _) = mode_iv(ctx, d.iv_len);
            let n = if d.fam == Family::Cfb8 { ctx.rng.range(0, 3 * b) } else { wl::nblocks(&mut ctx.rng, w, d.bs, ctx.tier).0 };
            let (data, _) = mode_data(ctx, n * d.bs);
            let (pieces, sc) = gen_pieces(ctx, n, w);
            ctx.note("iv", J::s(hex_short(&iv)));
            ctx.note("data", J::s(hex_short(&data)));
            let mut outs = Vec::new();
            for c in ALL_CTORS {
                let mut o = match mk_blk(ctx, &d, c, &iv) {
                    Ok(o) => o,
                    Err(Some(p)) => return ctx.panic_violation(&name, &p),
                    Err(None) => return ctx.violation(&format!("C14/ctor-err/{}", name), format!("{:?} rejected right-length key/IV", c)),
                };
                let s0 = guard(|| o.iv_state()).ok().flatten();
                match feed(ctx, o.as_mut(), &data, &pieces, Fill::Zero) {
                    Ok(f) => outs.push((c, s0, f.out, f.states)),
                    Err(p) => return ctx.panic_violation(&name, &p),
                }
            }
            for (c, s0, out, st) in &outs[1..] {
                if (s0, out, st) != (&outs[0].1, &outs[0].2, &outs[0].3) {
                    return ctx.violation(&format!("C14/ctors/{}", name), format!("{:?} and {:?} give different output or exported state", c, outs[0].0));
                }
            }
            ctx.st.count(&format!("ok.{}", name));
            ctx.nontrivial = n >= 1;
            if n >= 1 {
                ctx.cell(format!("{}|{}|{}|{}", name, ctx.cfg.name, len_class(n, w), sc));
            }
        }
        2 => {
            if ctx.cfg.streams.is_empty() {
                return;
            }
            let d = ctx.rng.pick(&ctx.cfg.streams).clone();
            let name = format!("{}/stream/ctors", d.flavor.name());
            ctx.subject(&name);
            let (iv, _) = stream_iv(ctx, d.flavor, b);
            let (len, rc) = wl::nbytes(&mut ctx.rng, b, w, ctx.tier);
            let (data, _) = mode_data(ctx, len);
            ctx.note("iv", J::s(hex_short(&iv)));
            let r = guard(|| {
                let mut outs = Vec::new();
                for c in ALL_CTORS {
                    let mut o = (d.mk)(c, &key, &iv).unwrap();
                    let mut out = vec![0u8; len];
                    assert!(o.try_apply(Form::B2b, &data, &mut out));
                    outs.push((out, o.core_iv_state(), o.core_block_pos(), o.try_current_pos(SeekTy::U64)));
                }
                outs
            });
            ctx.st.api_calls += 8;
            match r {
                Err(p) => ctx.panic_violation(&name, &p),
                Ok(outs) => {
                    if outs.iter().any(|o| o != &outs[0]) {
                        return ctx.violation(&format!("C14/ctors/{}", name), "constructors give different output or state".into());
                    }
                    ctx.st.count(&format!("ok.{}", name));
                    ctx.nontrivial = len > 0;
                    if len > 0 {
                        ctx.cell(format!("{}|{}|{}", name, ctx.cfg.name, rc));
                    }
                }
            }
        }
        _ => {
            if ctx.cfg.cts.is_empty() {
                return;
            }
            let d = ctx.rng.pick(&ctx.cfg.cts).clone();
            let name = format!("{}/ctors", d.var.name());
            ctx.subject(&name);
            let (iv, _) = mode_iv(ctx, b);
            let len = b + ctx.rng.below(3 * b);
            let (data, _) = mode_data(ctx, len);
            ctx.note("iv", J::s(hex_short(&iv)));
            ctx.note("data", J::s(hex_short(&data)));
            let r = guard(|| {
                let mut outs = Vec::new();
                for c in ALL_CTORS {
                    let o = (d.mk)(c, &key, &iv).unwrap();
                    let mut out = vec![0u8; len];
                    assert!(o.run(Direction::Enc, Form::B2b, &data, &mut out));
                    outs.push(out);
                }
                outs
            });
            ctx.st.api_calls += 4;
            match r {
                Err(p) => ctx.panic_violation(&name, &p),
                Ok(outs) => {
                    if outs.iter().any(|o| o != &outs[0]) {
                        return ctx.violation(&format!("C14/ctors/{}", name), "constructors give different output".into());
                    }
                    ctx.st.count(&format!("ok.{}", name));
                    ctx.nontrivial = true;
                    ctx.cell(format!("{}|{}|{}", name, ctx.cfg.name, res_class(len, b)));
                }
            }
        }
    }
}
