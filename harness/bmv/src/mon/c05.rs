//! C05 — ciphertext stealing follows NIST SP 800-38A Addendum CS1/CS2/CS3 (CBC and ECB).

use super::common::*;
use crate::ctx::{ALL_FILLS, Canary, Ctx, diff_desc};
use crate::model;
use crate::wl;
use bmv_core::subj::*;
use bmv_core::util::{J, guard, hex_short};

pub fn run(ctx: &mut Ctx) {
    if ctx.cfg.cts.is_empty() {
        ctx.st.count("skipped.no-cts-for-enc-only");
        return;
    }
    let d = ctx.rng.pick(&ctx.cfg.cts).clone();
    let dir = *ctx.rng.pick(&[Direction::Enc, Direction::Dec]);
    let name = format!("{}/{}", d.var.name(), dir.name());
    ctx.subject(&name);
    let b = ctx.cfg.bs;
    let w = ctx.cfg.par;
    let (iv, _) = mode_iv(ctx, b);
    // every L from b to (3w+2)*b + b - 1: number of blocks and residue chosen separately
    let nmax = (3 * w + 3).min(wl::MAX_LONG_BYTES / b);
    let n = match ctx.rng.below(400) {
        // rare long single calls: > 64 blocks, > 32 KiB, > 64 KiB
        0..=7 => *ctx.rng.pick(&[65usize, 66, 130, 200, 300]),
        8..=10 => (*ctx.rng.pick(&[32_769usize, 40_000, 65_537, 70_001])).div_ceil(b),
        x => match x % 6 {
            0 => 1,
            1 => 2,
            2 => 3,
            3 => (w + 1).min(nmax),
            4 => (2 * w + 2).min(nmax),
            _ => ctx.rng.range(1, nmax),
        },
    };
    let dl = match ctx.rng.below(5) {
        0 => b,
        1 => 1,
        2 => b - 1,
        _ => ctx.rng.range(1, b),
    }
    .max(1);
    let len = if n == 1 { b } else { (n - 1) * b + dl };
    let (data, dc) = mode_data(ctx, len);
    let form = *ctx.rng.pick(&FORMS3);
    let fill = *ctx.rng.pick(&ALL_FILLS);
    let ctor = *ctx.rng.pick(&ALL_CTORS);
    ctx.note("iv", J::s(hex_short(&iv)));
    ctx.note("len", J::i(len as i64));
    ctx.note("data", J::s(hex_short(&data)));
    ctx.note("data_class", J::s(dc));
    ctx.note("form", J::s(form.name()));
    ctx.note("prefill", J::s(fill.name()));
    let key = ctx.key.clone();
    let obj = match guard(|| (d.mk)(ctor, &key, &iv)) {
        Ok(Ok(o)) => o,
        Ok(Err(())) => return ctx.violation(&format!("C05/ctor-err/{}", name), "constructor rejected right-length key/IV".into()),
        Err(p) => return ctx.panic_violation(&format!("{}/ctor", name), &p),
    };
    let inp = Canary::from(&data);
    let pre = fill.make(&mut ctx.rng, &data, len);
    let mut out = Canary::from(&pre);
    ctx.st.api_calls += 1;
    match guard(|| obj.run(dir, form, inp.data(), out.data_mut())) {
        Ok(true) => {}
        Ok(false) => return ctx.violation(&format!("C05/err/{}", name), format!("a message of {} >= {} bytes was rejected", len, b)),
        Err(p) => return ctx.panic_violation(&name, &p),
    }
    let want = if dir == Direction::Enc {
        model::cts_enc(ctx.rc.as_ref(), d.var, &iv, &data)
    } else {
        model::cts_dec(ctx.rc.as_ref(), d.var, &iv, &data)
    };
    if out.data() != &want[..] {
        let real_n = len.div_ceil(b);
        let real_d = len - (real_n - 1) * b;
        let nclass = if real_n == 1 { "n=1" } else { "n>=2" };
        let dclass = if real_d == b { "d=b" } else { "d<b" };
        let det = format!("L={} (n={}, d={}): {}", len, real_n, real_d, diff_desc("output vs Addendum", out.data(), &want, b));
        return ctx.violation(&format!("C05/output/{}/{}/{}", name, nclass, dclass), det);
    }
    if !out.intact() || !inp.intact() || inp.data() != &data[..] {
        return ctx.violation(&format!("C05/canary/{}", name), "bytes outside the output were modified".into());
    }
    let real_n = len.div_ceil(b);
    let real_d = len - (real_n - 1) * b;
    let dcl = if real_d == b { "d=b" } else if real_d == 1 { "d=1" } else if real_d == b - 1 { "d=b-1" } else { "d=mid" };
    let ncl = if real_n == 1 { "n=1" } else if real_n == 2 { "n=2" } else { "n>2" };
    ctx.st.count(&format!("ok.{}", name));
    ctx.st.count(&format!("res.{}.{}.{}", d.var.name(), ncl, if real_d == b { "d=b" } else { "d<b" }));
    if dir == Direction::Dec {
        ctx.st.count(&format!("arbitrary-ciphertext.{}", d.var.name()));
    }
    ctx.nontrivial = true;
    ctx.cell(format!("{}|{}|{}|{}|{}", name, ctx.cfg.name, ncl, dcl, form.name()));
}
