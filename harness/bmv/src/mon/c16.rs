//! C16 — clones and separate instances are independent, deterministic values.
//! (relative; interleaving monitor + real threads)

use super::common::{mode_data, mode_iv};
use crate::ctx::Ctx;
use crate::wl;
use bmv_core::subj::*;
use bmv_core::util::{J, Rng, guard, hash_bytes, hex_short};
use std::sync::{Arc, Barrier};

pub enum Obj {
    Blk(Box<dyn BlkObj>),
    Buf(Box<dyn BufObj>),
    Stream(Box<dyn StreamObj>),
    Core(Box<dyn CoreObj>),
}

#[derive(Clone, Debug)]
pub enum Op {
    Blk(BKind, Vec<u8>),
    Buf(Vec<u8>),
    Apply(Form, Vec<u8>),
    Seek(u128),
    Core(CoreOp, Vec<u8>),
    SetPos(u128),
}

impl Op {
    fn describe(&self) -> String {
        match self {
            Op::Blk(k, d) => format!("{}({}B)", k.name(), d.len()),
            Op::Buf(d) => format!("apply({}B)", d.len()),
            Op::Apply(f, d) => format!("apply_{}({}B)", f.name(), d.len()),
            Op::Seek(p) => format!("seek({})", p),
            Op::Core(o, d) => format!("{}({}B)", o.name(), d.len()),
            Op::SetPos(p) => format!("set_block_pos({})", p),
        }
    }
}

fn put(v: &mut Vec<u8>, tag: u8, b: &[u8]) {
    v.push(tag);
    v.extend_from_slice(&(b.len() as u32).to_le_bytes());
    v.extend_from_slice(b);
}

impl Obj {
    /// run one operation; the result encodes everything observable: output bytes and the
    /// exported state / position afterwards
    pub fn step(&mut self, op: &Op) -> Vec<u8> {
        let mut r = Vec::new();
        match (self, op) {
            (Obj::Blk(o), Op::Blk(kind, data)) => {
                let mut out = vec![0x33u8; data.len()];
                o.call(*kind, data, &mut out);
                put(&mut r, 1, &out);
                if let Some(s) = o.iv_state() {
                    put(&mut r, 2, &s);
                }
            }
            (Obj::Buf(o), Op::Buf(data)) => {
                let mut d = data.clone();
                o.apply(&mut d);
                put(&mut r, 1, &d);
                let (b, p) = o.state();
                put(&mut r, 2, &b);
                put(&mut r, 3, &(p as u64).to_le_bytes());
            }
            (Obj::Stream(o), Op::Apply(form, data)) => {
                let mut out = vec![0x44u8; data.len()];
                let ok = o.try_apply(*form, data, &mut out);
                put(&mut r, 1, &out);
                r.push(ok as u8);
                stream_obs(o.as_ref(), &mut r);
            }
            (Obj::Stream(o), Op::Seek(p)) => {
                let ok = o.try_seek(SeekTy::U128, *p);
                r.push(match ok {
                    None => 2,
                    Some(true) => 1,
                    Some(false) => 0,
                });
                stream_obs(o.as_ref(), &mut r);
            }
            (Obj::Core(o), Op::Core(cop, data)) => {
                let mut out = vec![0x55u8; data.len()];
                o.op(*cop, data, &mut out);
                put(&mut r, 1, &out);
                core_obs(o.as_ref(), &mut r);
            }
            (Obj::Core(o), Op::SetPos(p)) => {
                o.set_block_pos(*p);
                core_obs(o.as_ref(), &mut r);
            }
            _ => panic!("harness: op does not match object kind"),
        }
        r
    }
    pub fn poke(&mut self, off: usize, mask: &[u8]) {
        match self {
            Obj::Blk(o) => o.poke(off, mask),
            Obj::Buf(o) => o.poke(off, mask),
            Obj::Stream(o) => o.poke(off, mask),
            Obj::Core(o) => o.poke(off, mask),
        }
    }
    /// `dst.clone_from(&src)`; false when unsupported (different kinds / not Clone)
    pub fn clone_from(&mut self, src: &Obj) -> bool {
        match (self, src) {
            (Obj::Blk(d), Obj::Blk(s)) => d.clone_from_obj(s.as_ref()),
            (Obj::Buf(d), Obj::Buf(s)) => d.clone_from_obj(s.as_ref()),
            (Obj::Stream(d), Obj::Stream(s)) => d.clone_from_obj(s.as_ref()),
            (Obj::Core(d), Obj::Core(s)) => d.clone_from_obj(s.as_ref()),
            _ => false,
        }
    }
    pub fn try_clone(&self) -> Option<Obj> {
        Some(match self {
            Obj::Blk(o) => Obj::Blk(o.clone_box()),
            Obj::Buf(o) => Obj::Buf(o.clone_box()),
            Obj::Stream(o) => Obj::Stream(o.clone_box()?),
            Obj::Core(o) => Obj::Core(o.clone_box()?),
        })
    }
}

fn stream_obs(o: &dyn StreamObj, r: &mut Vec<u8>) {
    if let Some(p) = o.try_current_pos(SeekTy::U128) {
        put(r, 4, &p.map(|v| v.to_le_bytes().to_vec()).unwrap_or_default());
    }
    if let Some(s) = o.core_iv_state() {
        put(r, 5, &s);
    }
    if let Some(b) = o.core_block_pos() {
        put(r, 6, &b.to_le_bytes());
    }
    put(r, 7, &o.core_remaining().map(|v| (v as u64).to_le_bytes().to_vec()).unwrap_or_default());
}
fn core_obs(o: &dyn CoreObj, r: &mut Vec<u8>) {
    if let Some(s) = o.iv_state() {
        put(r, 5, &s);
    }
    if let Some(b) = o.get_block_pos() {
        put(r, 6, &b.to_le_bytes());
    }
    put(r, 7, &o.remaining_blocks().map(|v| (v as u64).to_le_bytes().to_vec()).unwrap_or_default());
}

#[derive(Clone)]
enum Maker {
    Blk(BlkDesc),
    Buf(BufDesc),
    Stream(StreamDesc),
    Core(CoreDesc),
}
impl Maker {
    fn name(&self) -> String {
        match self {
            Maker::Blk(d) => format!("{}/{}", d.fam.name(), d.dir.name()),
            Maker::Buf(d) => format!("cfb-buf/{}", d.dir.name()),
            Maker::Stream(d) => format!("{}/stream", d.flavor.name()),
            Maker::Core(d) => format!("{}/core", d.flavor.name()),
        }
    }
    fn iv_len(&self, b: usize) -> usize {
        match self {
            Maker::Blk(d) => d.iv_len,
            _ => b,
        }
    }
    fn make(&self, key: &[u8], iv: &[u8]) -> Obj {
        match self {
            Maker::Blk(d) => Obj::Blk((d.mk)(Ctor::New, key, iv).expect("contract: constructor rejected a key/IV of the right length")),
            Maker::Buf(d) => Obj::Buf((d.mk)(Ctor::New, key, iv).expect("contract: constructor rejected a key/IV of the right length")),
            Maker::Stream(d) => Obj::Stream((d.mk)(Ctor::New, key, iv).expect("contract: constructor rejected a key/IV of the right length")),
            Maker::Core(d) => Obj::Core((d.mk)(Ctor::New, key, iv).expect("contract: constructor rejected a key/IV of the right length")),
        }
    }
    fn gen_op(&self, rng: &mut Rng, b: usize, w: usize) -> Op {
        match self {
            Maker::Blk(d) => {
                let n = *rng.pick(&[0usize, 1, 1, 2, w, w + 1, 2 * w + 1]);
                let n = if d.bs == 1 { n * 3 + rng.below(b + 2) } else { n };
                Op::Blk(wl::any_bkind(rng), rng.bytes(n.min((2048 / d.bs.max(1)).max(1)) * d.bs))
            }
            Maker::Buf(_) => {
                let r = rng.below(3 * b);
                let n = *rng.pick(&[0, 1, b - 1, b, b + 1, 2 * b + 3, r]);
                Op::Buf(rng.bytes(n))
            }
            Maker::Stream(d) => {
                if d.flavor.seekable() && rng.chance(1, 4) {
                    Op::Seek(rng.below(6 * b) as u128)
                } else {
                    let r = rng.below(3 * b);
                    let n = *rng.pick(&[0, 1, b - 1, b, b + 1, 2 * b + 3, r, w * b + 1]);
                    Op::Apply(*rng.pick(&FORMS3), rng.bytes(n))
                }
            }
            Maker::Core(d) => {
                if d.flavor.seekable() && rng.chance(1, 5) {
                    Op::SetPos(rng.below(40) as u128)
                } else {
                    let n = *rng.pick(&[0usize, 1, 1, 2, w, w + 1, 2 * w + 1]);
                    Op::Core(*rng.pick(&ALL_COREOPS), rng.bytes(n * b))
                }
            }
        }
    }
}

fn pool(ctx: &Ctx) -> Vec<Maker> {
    let mut p: Vec<Maker> = Vec::new();
    p.extend(ctx.cfg.blk.iter().cloned().map(Maker::Blk));
    p.extend(ctx.cfg.buf.iter().cloned().map(Maker::Buf));
    p.extend(ctx.cfg.streams.iter().filter(|d| d.cloneable).cloned().map(Maker::Stream));
    p.extend(ctx.cfg.cores.iter().filter(|d| d.cloneable).cloned().map(Maker::Core));
    p
}

pub fn run(ctx: &mut Ctx) {
    match ctx.rng.below(12) {
        0..=5 => clone_interleave(ctx),
        6..=7 => two_instances(ctx),
        8 => cts_clone(ctx),
        9..=10 => clone_from(ctx),
        _ => threads(ctx),
    }
}

fn replay(mk: &Maker, key: &[u8], iv: &[u8], h1: &[Op], h: &[Op]) -> Vec<Vec<u8>> {
    let mut o = mk.make(key, iv);
    for op in h1 {
        o.step(op);
    }
    h.iter().map(|op| o.step(op)).collect()
}

fn clone_interleave(ctx: &mut Ctx) {
    let p = pool(ctx);
    if p.is_empty() {
        return;
    }
    let mk = ctx.rng.pick(&p).clone();
    let name = mk.name();
    ctx.subject(&name);
    let b = ctx.cfg.bs;
    let w = ctx.cfg.par.max(1);
    let (iv, _) = mode_iv(ctx, mk.iv_len(b));
    let key = ctx.key.clone();
    // rarely: hundreds of operations before / after the clone
    let long = ctx.rng.chance(1, 80);
    let n1 = if long { ctx.rng.range(100, 300) } else { ctx.rng.range(0, 5) };
    let n2 = if long { ctx.rng.range(50, 150) } else { ctx.rng.range(1, 6) };
    let n3 = if long { ctx.rng.range(50, 150) } else { ctx.rng.range(1, 6) };
    let h1: Vec<Op> = (0..n1).map(|_| mk.gen_op(&mut ctx.rng, b, w)).collect();
    let h2: Vec<Op> = (0..n2).map(|_| mk.gen_op(&mut ctx.rng, b, w)).collect();
    let h3: Vec<Op> = (0..n3).map(|_| mk.gen_op(&mut ctx.rng, b, w)).collect();
    // interleaving schedule: a shuffled sequence of n2 'A's and n3 'B's
    let mut sched: Vec<bool> = std::iter::repeat(true).take(n2).chain(std::iter::repeat(false).take(n3)).collect();
    for i in (1..sched.len()).rev() {
        let j = ctx.rng.below(i + 1);
        sched.swap(i, j);
    }
    ctx.note("iv", J::s(hex_short(&iv)));
    ctx.note("h1", J::Arr(h1.iter().map(|o| J::s(o.describe())).collect()));
    ctx.note("h2_on_original", J::Arr(h2.iter().map(|o| J::s(o.describe())).collect()));
    ctx.note("h3_on_clone", J::Arr(h3.iter().map(|o| J::s(o.describe())).collect()));
    ctx.note("interleaving", J::s(sched.iter().map(|&a| if a { 'A' } else { 'B' }).collect::<String>()));
    let r = guard(|| {
        let mut a = mk.make(&key, &iv);
        for op in &h1 {
            a.step(op);
        }
        let mut bobj = a.try_clone().expect("harness: cloneable");
        let (mut ra, mut rb) = (Vec::new(), Vec::new());
        let (mut ia, mut ib) = (0, 0);
        for &turn in &sched {
            if turn {
                ra.push(a.step(&h2[ia]));
                ia += 1;
            } else {
                rb.push(bobj.step(&h3[ib]));
                ib += 1;
            }
        }
        let wa = replay(&mk, &key, &iv, &h1, &h2);
        let wb = replay(&mk, &key, &iv, &h1, &h3);
        (ra, rb, wa, wb)
    });
    ctx.st.api_calls += (2 * n1 + 2 * n2 + 2 * n3 + 1) as u64;
    match r {
        Err(p) => ctx.panic_violation(&name, &p),
        Ok((ra, rb, wa, wb)) => {
            if let Some(i) = (0..ra.len()).find(|&i| ra[i] != wa[i]) {
                return ctx.violation(&format!("C16/original-after-clone/{}", name), format!("operation {} on the original ({}) differs from an isolated replay of h1;h2", i, h2[i].describe()));
            }
            if let Some(i) = (0..rb.len()).find(|&i| rb[i] != wb[i]) {
                return ctx.violation(&format!("C16/clone/{}", name), format!("operation {} on the clone ({}) differs from an isolated replay of h1;h3", i, h3[i].describe()));
            }
            ctx.st.count(&format!("ok.{}", name));
            let midblock = n1 > 0;
            if midblock {
                ctx.st.count(&format!("clone-after-history.{}", name));
            }
            let ih = hash_bytes(&sched.iter().map(|&x| x as u8).collect::<Vec<u8>>());
            ctx.st.count("interleavings");
            ctx.nontrivial = true;
            ctx.cell(format!("{}|{}|il={:04x}|h1={}", name, ctx.cfg.name, ih & 0xffff, n1.min(2)));
        }
    }
}

/// `dst.clone_from(&src)` where dst was built with another key / IV and has its own history:
/// afterwards dst must be what `src.clone()` would be, and src must be unaffected
fn clone_from(ctx: &mut Ctx) {
    let p = pool(ctx);
    if p.is_empty() {
        return;
    }
    let mk = ctx.rng.pick(&p).clone();
    let name = format!("{}/clone_from", mk.name());
    ctx.subject(&mk.name());
    let b = ctx.cfg.bs;
    let w = ctx.cfg.par.max(1);
    let (iv_src, _) = mode_iv(ctx, mk.iv_len(b));
    let key_src = ctx.key.clone();
    // the destination differs in key, IV or both, and has its own history
    let (key_dst, iv_dst) = match ctx.rng.below(3) {
        0 => (key_src.clone(), ctx.rng.bytes(mk.iv_len(b))),
        1 => (ctx.rng.bytes(key_src.len()), iv_src.clone()),
        _ => (ctx.rng.bytes(key_src.len()), ctx.rng.bytes(mk.iv_len(b))),
    };
    let hs: Vec<Op> = (0..ctx.rng.range(0, 4)).map(|_| mk.gen_op(&mut ctx.rng, b, w)).collect();
    let hd: Vec<Op> = (0..ctx.rng.range(0, 4)).map(|_| mk.gen_op(&mut ctx.rng, b, w)).collect();
    let h2: Vec<Op> = (0..ctx.rng.range(1, 5)).map(|_| mk.gen_op(&mut ctx.rng, b, w)).collect();
    let h3: Vec<Op> = (0..ctx.rng.range(1, 5)).map(|_| mk.gen_op(&mut ctx.rng, b, w)).collect();
    ctx.note("src_history", J::Arr(hs.iter().map(|o| J::s(o.describe())).collect()));
    ctx.note("dst_history_before_clone_from", J::Arr(hd.iter().map(|o| J::s(o.describe())).collect()));
    ctx.note("after_on_src", J::Arr(h2.iter().map(|o| J::s(o.describe())).collect()));
    ctx.note("after_on_dst", J::Arr(h3.iter().map(|o| J::s(o.describe())).collect()));
    let r = guard(|| {
        let mut src = mk.make(&key_src, &iv_src);
        for op in &hs {
            src.step(op);
        }
        let mut dst = mk.make(&key_dst, &iv_dst);
        for op in &hd {
            dst.step(op);
        }
        if !dst.clone_from(&src) {
            return None;
        }
        // dst first, then src: neither may disturb the other
        let rd: Vec<Vec<u8>> = h3.iter().map(|op| dst.step(op)).collect();
        let rs: Vec<Vec<u8>> = h2.iter().map(|op| src.step(op)).collect();
        Some((rs, rd, replay(&mk, &key_src, &iv_src, &hs, &h2), replay(&mk, &key_src, &iv_src, &hs, &h3)))
    });
    ctx.st.api_calls += (hs.len() + hd.len() + 2 * h2.len() + 2 * h3.len() + 1) as u64;
    match r {
        Err(p) => ctx.panic_violation(&name, &p),
        Ok(None) => ctx.st.count("skipped.clone_from-unsupported"),
        Ok(Some((rs, rd, ws, wd))) => {
            if rd != wd {
                return ctx.violation(&format!("C16/clone_from/{}", mk.name()), "after dst.clone_from(&src), dst does not behave like a fresh replay of src's history".into());
            }
            if rs != ws {
                return ctx.violation(&format!("C16/clone_from-src/{}", mk.name()), "src changed behaviour after being the source of clone_from".into());
            }
            ctx.st.count("ok.clone_from");
            ctx.st.count(&format!("ok.clone_from.{}", mk.name()));
            ctx.nontrivial = true;
            ctx.cell(format!("clone_from|{}|{}|hs={}|hd={}", mk.name(), ctx.cfg.name, hs.len().min(2), hd.len().min(2)));
        }
    }
}

/// two separately constructed instances (same key/IV, or different) never influence each other
fn two_instances(ctx: &mut Ctx) {
    let mut p = pool(ctx);
    // BelT-CTR is not Clone but separate instances must still be independent
    p.extend(ctx.cfg.streams.iter().filter(|d| !d.cloneable).cloned().map(Maker::Stream));
    p.extend(ctx.cfg.cores.iter().filter(|d| !d.cloneable).cloned().map(Maker::Core));
    if p.is_empty() {
        return;
    }
    let mk1 = ctx.rng.pick(&p).clone();
    let mk2 = if ctx.rng.coin() { mk1.clone() } else { ctx.rng.pick(&p).clone() };
    let name = format!("{}+{}", mk1.name(), mk2.name());
    ctx.subject(&mk1.name());
    let b = ctx.cfg.bs;
    let w = ctx.cfg.par.max(1);
    let same = ctx.rng.coin();
    let (iv1, _) = mode_iv(ctx, mk1.iv_len(b));
    let iv2 = if same && mk1.iv_len(b) == mk2.iv_len(b) { iv1.clone() } else { ctx.rng.bytes(mk2.iv_len(b)) };
    let key1 = ctx.key.clone();
    let key2 = if same { key1.clone() } else { ctx.rng.bytes(key1.len()) };
    let n2 = ctx.rng.range(1, 6);
    let n3 = ctx.rng.range(1, 6);
    let h2: Vec<Op> = (0..n2).map(|_| mk1.gen_op(&mut ctx.rng, b, w)).collect();
    let h3: Vec<Op> = (0..n3).map(|_| mk2.gen_op(&mut ctx.rng, b, w)).collect();
    let mut sched: Vec<bool> = std::iter::repeat(true).take(n2).chain(std::iter::repeat(false).take(n3)).collect();
    for i in (1..sched.len()).rev() {
        let j = ctx.rng.below(i + 1);
        sched.swap(i, j);
    }
    ctx.note("subjects", J::s(&name));
    ctx.note("same_key_iv", J::Bool(same));
    ctx.note("interleaving", J::s(sched.iter().map(|&a| if a { 'A' } else { 'B' }).collect::<String>()));
    let r = guard(|| {
        let mut a = mk1.make(&key1, &iv1);
        let mut bobj = mk2.make(&key2, &iv2);
        let (mut ra, mut rb) = (Vec::new(), Vec::new());
        let (mut ia, mut ib) = (0, 0);
        for &turn in &sched {
            if turn {
                ra.push(a.step(&h2[ia]));
                ia += 1;
            } else {
                rb.push(bobj.step(&h3[ib]));
                ib += 1;
            }
        }
        (ra, rb, replay(&mk1, &key1, &iv1, &[], &h2), replay(&mk2, &key2, &iv2, &[], &h3))
    });
    ctx.st.api_calls += (2 * n2 + 2 * n3) as u64;
    match r {
        Err(p) => ctx.panic_violation(&name, &p),
        Ok((ra, rb, wa, wb)) => {
            if ra != wa || rb != wb {
                return ctx.violation(&format!("C16/instances-interfere/{}", mk1.name()), format!("interleaved use of two instances ({}) differs from isolated use", name));
            }
            ctx.st.count("ok.two-instances");
            ctx.st.count("interleavings");
            ctx.nontrivial = true;
            let ih = hash_bytes(&sched.iter().map(|&x| x as u8).collect::<Vec<u8>>());
            ctx.cell(format!("two|{}|{}|same={}|il={:04x}", name, ctx.cfg.name, same, ih & 0xfff));
        }
    }
}

/// CTS objects are consumed by use: a clone must produce what the original would have
fn cts_clone(ctx: &mut Ctx) {
    if ctx.cfg.cts.is_empty() {
        return;
    }
    let d = ctx.rng.pick(&ctx.cfg.cts).clone();
    let name = format!("{}/clone", d.var.name());
    ctx.subject(&name);
    let b = ctx.cfg.bs;
    let (iv, _) = mode_iv(ctx, b);
    let len = b + ctx.rng.below(4 * b);
    let m1 = ctx.rng.bytes(len);
    let m2 = ctx.rng.bytes(len);
    let key = ctx.key.clone();
    let dir = *ctx.rng.pick(&[Direction::Enc, Direction::Dec]);
    let r = guard(|| {
        let a = (d.mk)(Ctor::New, &key, &iv).unwrap();
        let c = a.clone_box();
        let c2 = c.clone_box();
        let (mut o1, mut o2, mut o3, mut o4, mut o5) = (vec![0u8; len], vec![0u8; len], vec![0u8; len], vec![0u8; len], vec![0u8; len]);
        assert!(c.run(dir, Form::B2b, &m2, &mut o2));
        assert!(a.run(dir, Form::B2b, &m1, &mut o1));
        assert!(c2.run(dir, Form::B2b, &m1, &mut o3));
        assert!((d.mk)(Ctor::New, &key, &iv).unwrap().run(dir, Form::B2b, &m1, &mut o4));
        assert!((d.mk)(Ctor::New, &key, &iv).unwrap().run(dir, Form::B2b, &m2, &mut o5));
        (o1, o2, o3, o4, o5)
    });
    ctx.st.api_calls += 5;
    match r {
        Err(p) => ctx.panic_violation(&name, &p),
        Ok((o1, o2, o3, o4, o5)) => {
            if o1 != o4 || o3 != o4 || o2 != o5 {
                return ctx.violation(&format!("C16/clone/{}", name), "a cloned CTS object produced something else than a fresh one".into());
            }
            ctx.st.count(&format!("ok.{}", name));
            ctx.nontrivial = true;
            ctx.cell(format!("{}|{}|{}", name, ctx.cfg.name, dir.name()));
        }
    }
}

/// original and clone driven from two OS threads concurrently (barrier-released)
fn threads(ctx: &mut Ctx) {
    let p = pool(ctx);
    if p.is_empty() {
        return;
    }
    let mk = ctx.rng.pick(&p).clone();
    let name = mk.name();
    ctx.subject(&name);
    let b = ctx.cfg.bs;
    let w = ctx.cfg.par.max(1);
    let (iv, _) = mode_iv(ctx, mk.iv_len(b));
    let key = ctx.key.clone();
    let n1 = ctx.rng.range(0, 3);
    let h1: Vec<Op> = (0..n1).map(|_| mk.gen_op(&mut ctx.rng, b, w)).collect();
    let h2: Vec<Op> = (0..12).map(|_| mk.gen_op(&mut ctx.rng, b, w)).collect();
    let h3: Vec<Op> = (0..12).map(|_| mk.gen_op(&mut ctx.rng, b, w)).collect();
    ctx.note("iv", J::s(hex_short(&iv)));
    ctx.note("threads", J::i(2));
    let r = guard(|| {
        let mut a = mk.make(&key, &iv);
        for op in &h1 {
            a.step(op);
        }
        let mut bobj = a.try_clone().expect("harness: cloneable");
        let bar = Arc::new(Barrier::new(2));
        let (b1, b2) = (bar.clone(), bar);
        let (h2c, h3c) = (h2.clone(), h3.clone());
        let t1 = std::thread::Builder::new().stack_size(crate::STACK / 8).spawn(move || {
            b1.wait();
            h2c.iter().map(|op| a.step(op)).collect::<Vec<_>>()
        }).expect("spawn");
        let t2 = std::thread::Builder::new().stack_size(crate::STACK / 8).spawn(move || {
            b2.wait();
            h3c.iter().map(|op| bobj.step(op)).collect::<Vec<_>>()
        }).expect("spawn");
        let ra = t1.join().map_err(|_| "thread 1 panicked")?;
        let rb = t2.join().map_err(|_| "thread 2 panicked")?;
        Ok::<_, &'static str>((ra, rb, replay(&mk, &key, &iv, &h1, &h2), replay(&mk, &key, &iv, &h1, &h3)))
    });
    ctx.st.api_calls += 50;
    match r {
        Err(p) => ctx.panic_violation(&name, &p),
        Ok(Err(e)) => ctx.violation(&format!("C16/panic/thread/{}", name), e.to_string()),
        Ok(Ok((ra, rb, wa, wb))) => {
            if ra != wa || rb != wb {
                return ctx.violation(&format!("C16/threads/{}", name), "concurrent use of original and clone from two threads differs from isolated sequential replay".into());
            }
            ctx.st.count("ok.threads");
            ctx.st.count(&format!("ok.threads.{}", name));
            ctx.nontrivial = true;
            ctx.cell(format!("threads|{}|{}", name, ctx.cfg.name));
        }
    }
}
