//! C09 — exported IV state resumes the stream and equals the public chaining value.
//! (relative: resume vs uninterrupted; state vs the bytes the object itself produced)

use super::common::*;
use crate::ctx::{Ctx, Fill, diff_desc};
use crate::wl;
use bmv_core::spy::{self, Dir};
use bmv_core::subj::*;
use bmv_core::util::{J, guard, hex_short, xor};

pub fn run(ctx: &mut Ctx) {
    if crate::ctx::focus() == "stream" {
        return core(ctx);
    }
    match ctx.rng.below(10) {
        0..=4 => blk(ctx),
        5..=6 => buffered(ctx),
        _ => core(ctx),
    }
}

const FAMS: [Family; 6] = [Family::Cbc, Family::Pcbc, Family::Ige, Family::Cfb, Family::Cfb8, Family::OfbBlk];

/// the public chaining value after `k` blocks, computed from the object's own observed I/O
fn chaining_from_io(fam: Family, dir: Direction, iv: &[u8], inp: &[u8], out: &[u8], k: usize, cb: usize) -> Vec<u8> {
    let enc = dir == Direction::Enc;
    let (pt, ct) = if enc { (inp, out) } else { (out, inp) };
    match fam {
        Family::Cbc | Family::Cfb => {
            if k == 0 { iv.to_vec() } else { ct[(k - 1) * cb..k * cb].to_vec() }
        }
        Family::Cfb8 => {
            // last b ciphertext bytes, IV bytes still shifting out (k counts bytes here)
            let mut v = iv.to_vec();
            v.extend_from_slice(&ct[..k]);
            v[v.len() - cb..].to_vec()
        }
        Family::OfbBlk => {
            if k == 0 { iv.to_vec() } else { xor(&inp[(k - 1) * cb..k * cb], &out[(k - 1) * cb..k * cb]) }
        }
        Family::Pcbc => {
            if k == 0 { iv.to_vec() } else { xor(&pt[(k - 1) * cb..k * cb], &ct[(k - 1) * cb..k * cb]) }
        }
        Family::Ige => {
            if k == 0 {
                iv.to_vec()
            } else {
                let mut v = ct[(k - 1) * cb..k * cb].to_vec();
                v.extend_from_slice(&pt[(k - 1) * cb..k * cb]);
                v
            }
        }
    }
}

fn blk(ctx: &mut Ctx) {
    let fam = *ctx.rng.pick(&FAMS);
    let dir = *ctx.rng.pick(&[Direction::Enc, Direction::Dec]);
    let Some(d) = ctx.cfg.blk(fam, dir).cloned() else { return };
    if !d.has_iv_state {
        ctx.st.count("skipped.no-iv-state(enc-only cfb)");
        return;
    }
    let name = subj_name(&d);
    ctx.subject(&name);
    let w = ctx.cfg.par;
    let cb = ctx.cfg.bs;
    let (iv, _) = mode_iv(ctx, d.iv_len);
    let n = if fam == Family::Cfb8 { wl::nbytes(&mut ctx.rng, cb, w, ctx.tier).0.clamp(1, 300) } else { wl::nblocks(&mut ctx.rng, w, d.bs, ctx.tier).0.max(1) };
    let (data, _) = mode_data(ctx, n * d.bs);
    // several cut points, chained
    let ncuts = ctx.rng.range(1, 4).min(n);
    let mut cuts: Vec<usize> = (0..ncuts).map(|_| ctx.rng.range(0, n)).collect();
    cuts.sort();
    cuts.dedup();
    ctx.note("iv", J::s(hex_short(&iv)));
    ctx.note("data", J::s(hex_short(&data)));
    ctx.note("cuts", J::Arr(cuts.iter().map(|x| J::i(*x as i64)).collect()));
    // uninterrupted run
    let Ok(mut whole) = mk_blk(ctx, &d, Ctor::New, &iv) else { return };
    let (pw, _) = gen_pieces(ctx, n, w);
    let fw = match feed(ctx, whole.as_mut(), &data, &pw, Fill::Zero) {
        Ok(f) => f,
        Err(p) => return ctx.panic_violation(&name, &p),
    };
    // resumed run: cut / export / import / continue
    let mut cur = match mk_blk(ctx, &d, Ctor::New, &iv) {
        Ok(o) => o,
        _ => return,
    };
    let mut out = Vec::new();
    let mut prev = 0;
    let mut bounds = cuts.clone();
    bounds.push(n);
    for (ci, &c) in bounds.iter().enumerate() {
        let seg = &data[prev * d.bs..c * d.bs];
        let (pieces, _) = gen_pieces(ctx, c - prev, w);
        let f = match feed(ctx, cur.as_mut(), seg, &pieces, Fill::Ones) {
            Ok(f) => f,
            Err(p) => return ctx.panic_violation(&name, &p),
        };
        out.extend_from_slice(&f.out);
        let st = match guard(|| cur.iv_state()) {
            Ok(Some(s)) => s,
            Ok(None) => return,
            Err(p) => return ctx.panic_violation(&format!("{}/iv_state", name), &p),
        };
        ctx.st.api_calls += 1;
        // (ii) the exported value is the public chaining value defined by the I/O so far
        let want = chaining_from_io(fam, dir, &iv, &data[..c * d.bs], &out, c, cb);
        if st != want {
            return ctx.violation(
                &format!("C09/chaining-value/{}", name),
                format!("after {} blocks iv_state = {} but the public chaining value (from the object's own input/output) is {}", c, hex_short(&st), hex_short(&want)),
            );
        }
        if ci + 1 < bounds.len() {
            // (i) import into a fresh instance (rotating constructors)
            let ctor = ALL_CTORS[ci % 4];
            cur = match mk_blk(ctx, &d, ctor, &st) {
                Ok(o) => o,
                Err(Some(p)) => return ctx.panic_violation(&format!("{}/ctor", name), &p),
                Err(None) => return ctx.violation(&format!("C09/import/{}", name), "a fresh instance rejected the exported state as IV".into()),
            };
        }
        prev = c;
    }
    if out != fw.out {
        let det = diff_desc("resumed run vs uninterrupted run", &out, &fw.out, d.bs);
        return ctx.violation(&format!("C09/resume/{}", name), det);
    }
    // (iii) the matching opposite direction, fed corresponding data, exports the same state
    let odir = if dir == Direction::Enc { Direction::Dec } else { Direction::Enc };
    if let Some(od) = ctx.cfg.blk(fam, odir).cloned() {
        if let Ok(mut o) = mk_blk(ctx, &od, Ctor::New, &iv) {
            let c = *ctx.rng.pick(&bounds);
            let (pieces, _) = gen_pieces(ctx, c, w);
            match feed(ctx, o.as_mut(), &fw.out[..c * d.bs], &pieces, Fill::Random) {
                Ok(fo) => {
                    if fo.out != data[..c * d.bs] {
                        // C01's business; do not report here
                        ctx.st.count("note.opposite-direction-does-not-invert");
                    } else {
                        let so = guard(|| o.iv_state()).ok().flatten();
                        // state of `whole` side after c blocks: recompute with a fresh run
                        let mut a = match mk_blk(ctx, &d, Ctor::New, &iv) {
                            Ok(a) => a,
                            _ => return,
                        };
                        let (pa, _) = gen_pieces(ctx, c, w);
                        if let Ok(_) = feed(ctx, a.as_mut(), &data[..c * d.bs], &pa, Fill::Zero) {
                            let sa = guard(|| a.iv_state()).ok().flatten();
                            if sa != so {
                                return ctx.violation(
                                    &format!("C09/enc-dec-state/{}", name),
                                    format!("after {} corresponding blocks: {} exports {:?}, {} exports {:?}", c, dir.name(), sa.map(|v| hex_short(&v)), odir.name(), so.map(|v| hex_short(&v))),
                                );
                            }
                            ctx.st.count(&format!("enc-dec-state.{}", fam.name()));
                        }
                    }
                }
                Err(_) => {}
            }
        }
    }
    ctx.st.count(&format!("ok.{}", name));
    ctx.st.count_n(&format!("cuts.{}", name), cuts.len() as u64);
    ctx.nontrivial = n >= 2;
    if ctx.nontrivial {
        let cc = if cuts.contains(&0) { "cut@0" } else if cuts.contains(&n) { "cut@n" } else { "cut@mid" };
        ctx.cell(format!("{}|{}|{}|{}|cuts={}", name, ctx.cfg.name, len_class(n, w), cc, cuts.len()));
    }
}

/// buffered CFB: (block, position) resumes at any byte
fn buffered(ctx: &mut Ctx) {
    let dir = *ctx.rng.pick(&[Direction::Enc, Direction::Dec]);
    let Some(d) = ctx.cfg.buf(dir).cloned() else { return };
    let name = format!("cfb-buf/{}", dir.name());
    ctx.subject(&name);
    let b = ctx.cfg.bs;
    let (iv, _) = mode_iv(ctx, b);
    let (len, rc) = wl::nbytes(&mut ctx.rng, b, ctx.cfg.par, ctx.tier);
    let len = len.max(1);
    let (msg, _) = mode_data(ctx, len);
    let ncuts = ctx.rng.range(1, 4);
    let mut cuts: Vec<usize> = (0..ncuts).map(|_| ctx.rng.range(0, len)).collect();
    cuts.sort();
    cuts.dedup();
    ctx.note("iv", J::s(hex_short(&iv)));
    ctx.note("msg", J::s(hex_short(&msg)));
    ctx.note("cuts", J::Arr(cuts.iter().map(|x| J::i(*x as i64)).collect()));
    let key = ctx.key.clone();
    let mut srng = ctx.rng.clone();
    let r = guard(|| -> Result<(Vec<u8>, Vec<u8>, bool), String> {
        let mut whole = (d.mk)(Ctor::New, &key, &iv).map_err(|_| "ctor")?;
        let mut w = msg.clone();
        whole.apply(&mut w);
        let mut cur = (d.mk)(Ctor::New, &key, &iv).map_err(|_| "ctor")?;
        let mut out = Vec::new();
        let mut prev = 0;
        let mut midpos = false;
        let mut bounds = cuts.clone();
        bounds.push(len);
        for (ci, &c) in bounds.iter().enumerate() {
            let mut seg = msg[prev..c].to_vec();
            let (sched, _) = wl::byte_schedule(&mut srng, seg.len(), b);
            let mut off = 0;
            for k in sched {
                cur.apply(&mut seg[off..off + k]);
                off += k;
            }
            out.extend_from_slice(&seg);
            if ci + 1 < bounds.len() {
                // (only "resumes correctly" is demanded of the exported pair, not how the position
                // is represented)
                let (blk, pos) = cur.state();
                midpos |= c % b != 0;
                cur = (d.from_state)(&key, &blk, pos);
            }
            prev = c;
        }
        Ok((w, out, midpos))
    });
    ctx.st.api_calls += 4;
    match r {
        Err(p) => ctx.panic_violation(&name, &p),
        Ok(Err(e)) => ctx.violation(&format!("C09/position/{}", name), e),
        Ok(Ok((w, out, midpos))) => {
            if w != out {
                let det = diff_desc("resumed run vs uninterrupted run", &out, &w, b);
                return ctx.violation(&format!("C09/resume/{}", name), det);
            }
            ctx.st.count(&format!("ok.{}", name));
            if midpos {
                ctx.st.count(&format!("cut-mid-block.{}", name));
            }
            if len > b {
                ctx.nontrivial = true;
                ctx.cell(format!("{}|{}|{}|mid={}|cuts={}", name, ctx.cfg.name, rc, midpos, cuts.len()));
            }
        }
    }
}

/// keystream cores (CTR flavours, OFB, BelT-CTR) and the byte-level wrappers at a block boundary
fn core(ctx: &mut Ctx) {
    if ctx.cfg.cores.is_empty() {
        return;
    }
    let fls: Vec<Flavor> = ctx.cfg.cores.iter().map(|d| d.flavor).collect();
    let fl = super::common::pick_flavor(ctx, &fls);
    let d = ctx.cfg.core(fl).unwrap().clone();
    let name = format!("{}/core", fl.name());
    ctx.subject(&name);
    let b = ctx.cfg.bs;
    let w = ctx.cfg.par;
    let (iv, ivc) = stream_iv(ctx, fl, b);
    let (n, _) = wl::nblocks(&mut ctx.rng, w, b, ctx.tier);
    let n = n.max(1);
    let cut = ctx.rng.range(0, n);
    ctx.note("iv", J::s(hex_short(&iv)));
    ctx.note("iv_class", J::s(ivc));
    ctx.note("n", J::i(n as i64));
    ctx.note("cut", J::i(cut as i64));
    let key = ctx.key.clone();
    let via_wrapper = ctx.rng.coin() && ctx.cfg.stream(fl).is_some();
    let sd = ctx.cfg.stream(fl).cloned();
    spy::log_start();
    let r = guard(|| -> Result<(Vec<u8>, Vec<u8>, Option<Vec<u8>>, Vec<u8>), String> {
        // uninterrupted keystream
        let mut whole = (d.mk)(Ctor::New, &key, &iv).map_err(|_| "ctor")?;
        let mut ks = vec![0u8; n * b];
        whole.op(CoreOp::WriteBlocks, &[], &mut ks);
        // first part
        let mut first = vec![0u8; cut * b];
        let st = if via_wrapper {
            let mut s = (sd.as_ref().unwrap().mk)(Ctor::New, &key, &iv).map_err(|_| "ctor")?;
            let z = vec![0u8; cut * b];
            if !s.try_apply(Form::B2b, &z, &mut first) {
                return Err("apply failed".into());
            }
            s.core_iv_state()
        } else {
            let mut a = (d.mk)(Ctor::Inner, &key, &iv).map_err(|_| "ctor")?;
            a.op(CoreOp::WriteBlocks, &[], &mut first);
            a.iv_state()
        };
        let Some(st) = st else { return Ok((ks, Vec::new(), None, Vec::new())) };
        let _ = spy::log_take();
        // resumed part
        let mut bcore = (d.mk)(Ctor::Slices, &key, &st).map_err(|_| "import: fresh instance rejected exported state")?;
        let ctor_inputs: Vec<Vec<u8>> = spy::log_take().into_iter().filter(|e| e.dir == Dir::E).map(|e| e.inp).collect();
        let mut second = vec![0u8; (n - cut) * b];
        bcore.op(CoreOp::WriteBlocks, &[], &mut second);
        let next_inputs: Vec<Vec<u8>> = spy::log_take().into_iter().filter(|e| e.dir == Dir::E).map(|e| e.inp).collect();
        let mut out = first;
        out.extend_from_slice(&second);
        let _ = ctor_inputs;
        Ok((ks, out, Some(st), next_inputs.first().cloned().unwrap_or_default()))
    });
    spy::log_stop();
    ctx.st.api_calls += 5;
    match r {
        Err(p) => ctx.panic_violation(&name, &p),
        Ok(Err(e)) => ctx.violation(&format!("C09/import/{}", name), e),
        Ok(Ok((_, _, None, _))) => ctx.st.count("skipped.no-iv-state"),
        Ok(Ok((ks, out, Some(st), next_in))) => {
            if ks != out {
                let det = format!("cut at block {}: {}", cut, diff_desc("resumed keystream vs uninterrupted keystream", &out, &ks, b));
                return ctx.violation(&format!("C09/resume/{}", name), det);
            }
            // (ii) the public chaining value
            if cut < n {
                match fl {
                    Flavor::Ofb => {
                        let want = if cut == 0 { iv.clone() } else { ks[(cut - 1) * b..cut * b].to_vec() };
                        if st != want {
                            return ctx.violation(&format!("C09/chaining-value/{}", name), format!("iv_state {} != last keystream block {}", hex_short(&st), hex_short(&want)));
                        }
                    }
                    Flavor::Belt => {
                        // the value that resumes BelT-CTR after `cut` blocks: E(state) = s0 + cut
                        // (definitional, with the harness's own E; which block the cipher happens to
                        // be asked for next is not part of the property)
                        let mut t = st.clone();
                        ctx.rc.e(&mut t);
                        let want = crate::model::belt_s0(ctx.rc.as_ref(), &iv).wrapping_add(cut as u128).to_le_bytes().to_vec();
                        if t != want {
                            return ctx.violation(&format!("C09/chaining-value/{}", name), format!("E(iv_state) = {} but s0 + {} = {}", hex_short(&t), cut, hex_short(&want)));
                        }
                        let _ = &next_in;
                    }
                    _ => {
                        // CTR: the exported value is the next counter block, layout(IV, cut)
                        let want = crate::model::ks_input(ctx.rc.as_ref(), fl, &iv, cut as u128);
                        if st != want {
                            return ctx.violation(&format!("C09/chaining-value/{}", name), format!("iv_state {} != next counter block {}", hex_short(&st), hex_short(&want)));
                        }
                    }
                }
            }
            ctx.st.count(&format!("ok.{}", name));
            if via_wrapper {
                ctx.st.count(&format!("via-wrapper.{}", fl.name()));
            }
            if n >= 2 {
                ctx.nontrivial = true;
                let cc = if cut == 0 { "cut@0" } else if cut == n { "cut@n" } else { "cut@mid" };
                ctx.cell(format!("{}|{}|{}|{}|{}|wrapper={}", name, ctx.cfg.name, ivc, len_class(n, w), cc, via_wrapper));
            }
        }
    }
}
