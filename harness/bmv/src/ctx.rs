//! Per-case context, statistics, violations, canary buffers.

use bmv_core::spy::{self, Dir, Ev, Kind, RefCipher};
use bmv_core::subj::Cfg;
use bmv_core::util::{J, PanicInfo, Rng, hex_short};
use std::collections::{BTreeMap, BTreeSet};

static FOCUS: std::sync::OnceLock<String> = std::sync::OnceLock::new();
/// `--focus stream`: a small slice (Miri cross-interpreting another platform) spends its few
/// histories on the subjects whose code handles byte order / integer width itself
pub fn set_focus(f: &str) {
    let _ = FOCUS.set(f.to_string());
}
pub fn focus() -> &'static str {
    FOCUS.get().map(|s| s.as_str()).unwrap_or("")
}

#[derive(Clone, Copy, Debug, PartialEq, Eq)]
pub enum Tier {
    Quick,
    Thorough,
    /// tiny workloads for Miri / valgrind slices
    Slice,
}

#[derive(Clone, Debug)]
pub struct Violation {
    pub prop: &'static str,
    /// structural signature (known findings are keyed on it)
    pub sig: String,
    pub detail: String,
    pub cfg: String,
    pub case_seed: u64,
    pub case: J,
}

impl Violation {
    pub fn to_json(&self) -> J {
        J::obj()
            .set("property", J::s(self.prop))
            .set("signature", J::s(&self.sig))
            .set("detail", J::s(&self.detail))
            .set("cfg", J::s(&self.cfg))
            .set("case_seed", J::s(self.case_seed.to_string()))
            .set("case", self.case.clone())
    }
}

#[derive(Default)]
pub struct Stats {
    pub evaluations: u64,
    pub api_calls: u64,
    /// E single / E par / E tail / D single / D par / D tail
    pub cipher_events: [u64; 6],
    pub cells: BTreeSet<String>,
    pub counters: BTreeMap<String, u64>,
    pub violations: Vec<Violation>,
    pub violations_total: u64,
    pub violations_by_sig: BTreeMap<String, u64>,
    pub samples: Vec<J>,
    pub harness_errors: Vec<String>,
    pub per_cfg: BTreeMap<String, u64>,
    pub per_subject: BTreeMap<String, u64>,
}

impl Stats {
    pub fn merge(&mut self, o: Stats) {
        self.evaluations += o.evaluations;
        self.api_calls += o.api_calls;
        for i in 0..6 {
            self.cipher_events[i] += o.cipher_events[i];
        }
        self.cells.extend(o.cells);
        for (k, v) in o.counters {
            *self.counters.entry(k).or_insert(0) += v;
        }
        for (k, v) in o.per_cfg {
            *self.per_cfg.entry(k).or_insert(0) += v;
        }
        for (k, v) in o.per_subject {
            *self.per_subject.entry(k).or_insert(0) += v;
        }
        self.violations_total += o.violations_total;
        for v in o.violations {
            self.keep_violation(v);
        }
        for (k, n) in o.violations_by_sig {
            *self.violations_by_sig.entry(k).or_insert(0) += n;
        }
        for s in o.samples {
            if self.samples.len() < 6 {
                self.samples.push(s);
            }
        }
        self.harness_errors.extend(o.harness_errors);
    }
    /// keep at most 3 witnesses per signature (and at most 80 signatures), so that a flood
    /// of one (e.g. known) signature can never crowd out a different one
    pub fn keep_violation(&mut self, v: Violation) {
        let same = self.violations.iter().filter(|x| x.sig == v.sig).count();
        let sigs: BTreeSet<&str> = self.violations.iter().map(|x| x.sig.as_str()).collect();
        if same < 3 && (same > 0 || sigs.len() < 80) {
            self.violations.push(v);
        }
    }
    pub fn count(&mut self, k: &str) {
        *self.counters.entry(k.to_string()).or_insert(0) += 1;
    }
    pub fn count_n(&mut self, k: &str, n: u64) {
        *self.counters.entry(k.to_string()).or_insert(0) += n;
    }
    pub fn get(&self, k: &str) -> u64 {
        self.counters.get(k).copied().unwrap_or(0)
    }
    pub fn tally_events(&mut self, evs: &[Ev]) {
        for e in evs {
            let i = match (e.dir, e.kind) {
                (Dir::E, Kind::Single) => 0,
                (Dir::E, Kind::Par) => 1,
                (Dir::E, Kind::Tail) => 2,
                (Dir::D, Kind::Single) => 3,
                (Dir::D, Kind::Par) => 4,
                (Dir::D, Kind::Tail) => 5,
            };
            self.cipher_events[i] += 1;
        }
    }
}

pub struct Ctx<'a> {
    pub prop: &'static str,
    pub cfg: &'a Cfg,
    pub key: Vec<u8>,
    pub rc: Box<dyn RefCipher>,
    pub rng: Rng,
    pub case_seed: u64,
    pub tier: Tier,
    pub st: &'a mut Stats,
    pub notes: Vec<(String, J)>,
    pub violated: bool,
    /// this case exercised the mechanism the property is about
    pub nontrivial: bool,
    /// C13 runs other monitors' workloads and owns only the "no operation panics" verdict:
    /// in this mode every non-panic violation is dropped (it belongs to another property)
    pub panic_only: bool,
}

impl<'a> Ctx<'a> {
    pub fn new(prop: &'static str, cfg: &'a Cfg, case_seed: u64, tier: Tier, st: &'a mut Stats) -> Self {
        let mut rng = Rng::new(case_seed);
        let key = rng.bytes(cfg.key_len);
        let rc = (cfg.mk_ref)(&key);
        Ctx {
            prop,
            cfg,
            key,
            rc,
            rng,
            case_seed,
            tier,
            st,
            notes: Vec::new(),
            violated: false,
            nontrivial: false,
            panic_only: false,
        }
    }
    pub fn note(&mut self, k: &str, v: J) {
        if let Some(e) = self.notes.iter_mut().find(|e| e.0 == k) {
            e.1 = v;
        } else {
            self.notes.push((k.to_string(), v));
        }
    }
    pub fn note_bytes(&mut self, k: &str, b: &[u8]) {
        self.note(k, J::s(hex_short(b)));
    }
    pub fn case_json(&self) -> J {
        let mut o = J::obj()
            .set("property", J::s(self.prop))
            .set("cfg", J::s(&self.cfg.name))
            .set("case_seed", J::s(self.case_seed.to_string()))
            .set("key", J::s(bmv_core::util::hex(&self.key)));
        for (k, v) in &self.notes {
            o.put(k, v.clone());
        }
        o
    }
    pub fn cell(&mut self, c: String) {
        self.st.cells.insert(c);
    }
    pub fn violation(&mut self, sig: &str, detail: String) {
        if self.panic_only && !sig.contains("/panic/") {
            self.st.count("ignored.other-property-violation-in-panic-only-mode");
            return;
        }
        self.violated = true;
        self.st.violations_total += 1;
        *self.st.violations_by_sig.entry(sig.to_string()).or_insert(0) += 1;
        let v = Violation {
            prop: self.prop,
            sig: sig.to_string(),
            detail,
            cfg: self.cfg.name.clone(),
            case_seed: self.case_seed,
            case: self.case_json(),
        };
        self.st.keep_violation(v);
    }
    /// a panic inside a monitored call where the oracle expected a value
    pub fn panic_violation(&mut self, what: &str, p: &PanicInfo) {
        let site = bmv_core::util::panic_site(p);
        if p.0.contains("harness:") {
            // an assertion of the harness itself fired inside the guarded call: a defect of the
            // machinery, never a statement about block-modes (-> inconclusive)
            if self.st.harness_errors.len() < 20 {
                self.st.harness_errors.push(format!("harness assertion inside a monitored call ({}, cfg {}, case_seed {}): {}", what, self.cfg.name, self.case_seed, site));
            }
            return;
        }
        self.violation(&format!("{}/panic/{}", self.prop, what), format!("{} panicked: {}", what, site));
    }
    pub fn sample(&mut self) {
        if self.st.samples.len() < 6 {
            let j = self.case_json();
            self.st.samples.push(j);
        }
    }
    pub fn subject(&mut self, s: &str) {
        *self.st.per_subject.entry(s.to_string()).or_insert(0) += 1;
        self.note("subject", J::s(s));
    }
    /// take the spy log, tally it, return it
    pub fn take_log(&mut self) -> Vec<Ev> {
        let evs = spy::log_take();
        self.st.tally_events(&evs);
        evs
    }
}

// ---------------------------------------------------------------- canary buffers

pub const GUARD: usize = 24;

/// A caller buffer carved out of a larger allocation with monitor-level red zones.
pub struct Canary {
    store: Vec<u8>,
    len: usize,
}
fn guard_byte(i: usize) -> u8 {
    0xA5 ^ (i as u8).wrapping_mul(31)
}
impl Canary {
    pub fn from(data: &[u8]) -> Self {
        let len = data.len();
        let mut store = vec![0u8; len + 2 * GUARD];
        for i in 0..GUARD {
            store[i] = guard_byte(i);
            store[GUARD + len + i] = guard_byte(i + 7);
        }
        store[GUARD..GUARD + len].copy_from_slice(data);
        Canary { store, len }
    }
    pub fn filled(len: usize, v: u8) -> Self {
        Self::from(&vec![v; len])
    }
    pub fn data(&self) -> &[u8] {
        &self.store[GUARD..GUARD + self.len]
    }
    pub fn data_mut(&mut self) -> &mut [u8] {
        &mut self.store[GUARD..GUARD + self.len]
    }
    pub fn intact(&self) -> bool {
        (0..GUARD).all(|i| self.store[i] == guard_byte(i) && self.store[GUARD + self.len + i] == guard_byte(i + 7))
    }
}

/// Pre-fill patterns for output buffers.
#[derive(Clone, Copy, Debug, PartialEq, Eq)]
pub enum Fill {
    Zero,
    Ones,
    Random,
    CopyOfInput,
    Complement,
}
pub const ALL_FILLS: [Fill; 5] = [Fill::Zero, Fill::Ones, Fill::Random, Fill::CopyOfInput, Fill::Complement];
impl Fill {
    pub fn name(self) -> &'static str {
        match self {
            Fill::Zero => "zero",
            Fill::Ones => "ones",
            Fill::Random => "random",
            Fill::CopyOfInput => "copy",
            Fill::Complement => "compl",
        }
    }
    pub fn make(self, rng: &mut Rng, inp: &[u8], len: usize) -> Vec<u8> {
        let mut v = vec![0u8; len];
        match self {
            Fill::Zero => {}
            Fill::Ones => v.fill(0xFF),
            Fill::Random => rng.fill(&mut v),
            Fill::CopyOfInput => {
                for (i, b) in v.iter_mut().enumerate() {
                    *b = inp.get(i).copied().unwrap_or(0x5A);
                }
            }
            Fill::Complement => {
                for (i, b) in v.iter_mut().enumerate() {
                    *b = !inp.get(i).copied().unwrap_or(0x5A);
                }
            }
        }
        v
    }
}

pub fn first_diff(a: &[u8], b: &[u8]) -> Option<usize> {
    if a.len() != b.len() {
        return Some(a.len().min(b.len()));
    }
    a.iter().zip(b).position(|(x, y)| x != y)
}

pub fn diff_desc(what: &str, got: &[u8], want: &[u8], bs: usize) -> String {
    match first_diff(got, want) {
        None => format!("{}: equal", what),
        Some(i) => format!(
            "{}: first difference at byte {} (block {}, offset {}); lengths got={} want={}; got={} want={}",
            what,
            i,
            i / bs.max(1),
            i % bs.max(1),
            got.len(),
            want.len(),
            hex_short(got),
            hex_short(want)
        ),
    }
}
