//! Seeded, boundary-biased workload generators.

use crate::ctx::Tier;
use bmv_core::subj::{ALL_BKINDS, BKind, Flavor};
use bmv_core::util::Rng;

/// cap on bytes per ordinary call (bs = 255 -> ~32 blocks); the rare "long" classes below go
/// beyond it on purpose
pub const MAX_BYTES: usize = 8192;
/// cap for the rare long calls (single calls of > 64 blocks, > 64 KiB, > 65536 blocks)
pub const MAX_LONG_BYTES: usize = 1_200_000;

pub fn max_blocks(bs: usize, w: usize, tier: Tier) -> usize {
    let cap = match tier {
        Tier::Slice => return (MAX_BYTES / bs.max(1)).clamp(3, 9),
        _ => 40,
    };
    // always allow three full batches + tail of the backend width, within 64 KiB
    let by_width = (3 * w + 2).min(65536 / bs.max(1));
    (MAX_BYTES / bs.max(1)).clamp(3, cap).max(by_width)
}

/// number of blocks, biased to batch boundaries of width `w`; rarely a *long* single call
/// (> 64 blocks; > 64 KiB; > 65536 blocks) because batching / windowing code has thresholds
pub fn nblocks(rng: &mut Rng, w: usize, bs: usize, tier: Tier) -> (usize, &'static str) {
    let w = w.max(1);
    let cap = max_blocks(bs, w, tier);
    if tier != Tier::Slice {
        let roll = rng.below(3000);
        if roll < 60 {
            // more than 64 blocks in one call
            let n = *rng.pick(&[65usize, 66, 67, 129, 130, 200, 257, 300]);
            return (n.min(MAX_LONG_BYTES / bs), "long>64blk");
        }
        if roll < 72 {
            // more than 64 KiB (and more than 32 KiB) in one call, any block size
            let bytes = *rng.pick(&[32_768usize + 1, 40_000, 65_536 + 1, 70_001, 131_072 + 5]);
            return (bytes.div_ceil(bs).min(MAX_LONG_BYTES / bs), "long>64KiB");
        }
        if roll < 140 && roll >= 81 && (w + 2) * bs > 65536 {
            // a backend so wide that one batch alone exceeds 64 KiB: the width-relative candidates
            // below are capped away, so give whole batches (+ the two CTS tail blocks) their own class
            let n = *rng.pick(&[w, w + 1, w + 2, w + 3, 2 * w + 1, 2 * w + 3]);
            return (n.min(MAX_LONG_BYTES / bs), "long>=batch");
        }
        if roll < 81 && bs <= 16 {
            // more than 65536 blocks in one call
            return ((65_536 + rng.below(12)).min(MAX_LONG_BYTES / bs), "long>65536blk");
        }
    }
    let cands: [(usize, &'static str); 12] = [
        (0, "0"),
        (1, "1"),
        (2, "2"),
        (w.saturating_sub(1), "w-1"),
        (w, "w"),
        (w + 1, "w+1"),
        (2 * w, "2w"),
        (2 * w + 1, "2w+1"),
        (2 * w + w.saturating_sub(1), "3w-1"),
        (3 * w + 2, "3w+2"),
        (rng.range(0, cap), "rand"),
        (cap, "cap"),
    ];
    let (n, c) = *rng.pick(&cands);
    if n > cap { (cap, "cap") } else { (n, c) }
}

/// a byte length with every residue class mod b represented
pub fn nbytes(rng: &mut Rng, b: usize, w: usize, tier: Tier) -> (usize, &'static str) {
    let (nb, _) = nblocks(rng, w, b, tier);
    let cands: [(usize, &'static str); 8] = [
        (0, "r=0"),
        (1, "r=1"),
        (b - 1, "r=b-1"),
        (b / 2, "r=b/2"),
        (rng.below(b), "r=rand"),
        (0, "r=0"),
        (b.saturating_sub(2), "r=b-2"),
        (rng.below(b), "r=rand"),
    ];
    let (r, c) = *rng.pick(&cands);
    let r = r % b;
    ((nb * b + r).min(MAX_LONG_BYTES), c)
}

#[derive(Clone, Debug)]
pub struct Piece {
    pub n: usize,
    pub kind: BKind,
}

pub fn any_bkind(rng: &mut Rng) -> BKind {
    *rng.pick(&ALL_BKINDS)
}

/// composition of `n` blocks into pieces; returns (pieces, class name)
pub fn schedule(rng: &mut Rng, n: usize, w: usize) -> (Vec<usize>, &'static str) {
    let w = w.max(1);
    if n == 0 {
        return (vec![0], "empty");
    }
    // long inputs: only schedules with a handful of pieces (cost stays linear)
    let class = if n > 400 { *rng.pick(&[1usize, 2, 4, 6, 7, 8]) } else { rng.below(9) };
    let mut v = Vec::new();
    let name;
    match class {
        0 => {
            v = vec![1; n];
            name = "singles";
        }
        1 => {
            v = vec![n];
            name = "one";
        }
        2 => {
            // [w, rest]
            if n > w {
                v = vec![w, n - w];
            } else {
                v = vec![n];
            }
            name = "w+rest";
        }
        3 => {
            // [w-1, 1, w+1, ...]
            let pat = [w.saturating_sub(1).max(1), 1, w + 1];
            let mut left = n;
            let mut i = 0;
            while left > 0 {
                let k = pat[i % 3].min(left);
                v.push(k);
                left -= k;
                i += 1;
            }
            name = "w-1,1,w+1";
        }
        4 => {
            // k*w + t with non-empty tail, then the rest
            let k = rng.range(1, 3);
            let t = rng.range(1, w.max(2) - 1).max(1);
            let first = (k * w + t).min(n);
            v.push(first);
            if n > first {
                v.push(n - first);
            }
            name = "kw+t";
        }
        5 => {
            // includes empty pieces
            let mut left = n;
            while left > 0 {
                if rng.chance(1, 3) {
                    v.push(0);
                }
                let k = rng.range(1, left);
                v.push(k);
                left -= k;
            }
            v.push(0);
            name = "with-empty";
        }
        6 => {
            // one block at a time, then a long one
            let s = rng.range(0, n.min(3));
            for _ in 0..s {
                v.push(1);
            }
            if n > s {
                v.push(n - s);
            }
            name = "1..,rest";
        }
        _ => {
            // random composition of 3..12 parts
            let parts = rng.range(3, 12).min(n);
            let mut cuts: Vec<usize> = (0..parts - 1).map(|_| rng.range(0, n)).collect();
            cuts.sort();
            let mut prev = 0;
            for c in cuts {
                v.push(c - prev);
                prev = c;
            }
            v.push(n - prev);
            name = "random";
        }
    }
    debug_assert_eq!(v.iter().sum::<usize>(), n);
    (v, name)
}

/// composition of `len` bytes into pieces for byte-oriented APIs
pub fn byte_schedule(rng: &mut Rng, len: usize, b: usize) -> (Vec<usize>, &'static str) {
    if len == 0 {
        return (vec![0, 0], "empty");
    }
    // long inputs: only schedules with a bounded number of pieces
    let class = if len > 20_000 { *rng.pick(&[0usize, 0, 1, 5, 6, 7, 8]) } else { rng.below(9) };
    let mut v = Vec::new();
    let name;
    match class {
        0 => {
            v = vec![len];
            name = "one";
        }
        8 => {
            // hundreds of tiny calls on one object (0..3 bytes each), then the rest
            let mut left = len;
            let mut calls = 0;
            while left > 0 && calls < 700 {
                let k = rng.below(4).min(left);
                v.push(k);
                left -= k;
                calls += 1;
            }
            if left > 0 {
                v.push(left);
            }
            name = "many-tiny";
        }
        1 => {
            // every byte alone (cap the count)
            if len <= 96 {
                v = vec![1; len];
            } else {
                v = vec![1; 64];
                v.push(len - 64);
            }
            name = "bytes";
        }
        2 => {
            // piece ending exactly on a block boundary followed by a short one
            let mut left = len;
            while left > 0 {
                let k = b.min(left);
                v.push(k);
                left -= k;
                if left > 0 {
                    let s = rng.range(1, b.min(left));
                    v.push(s);
                    left -= s;
                    if left > 0 && s < b {
                        let fill = (b - s).min(left);
                        v.push(fill);
                        left -= fill;
                    }
                }
            }
            name = "boundary-then-short";
        }
        3 => {
            // straddles: pieces of b+1 / b-1
            let mut left = len;
            let mut t = true;
            while left > 0 {
                let k = if t { b + 1 } else { b.saturating_sub(1).max(1) }.min(left);
                v.push(k);
                left -= k;
                t = !t;
            }
            name = "straddle";
        }
        4 => {
            // with empties
            let mut left = len;
            v.push(0);
            while left > 0 {
                let k = rng.range(1, left.min(3 * b));
                v.push(k);
                left -= k;
                if rng.chance(1, 3) {
                    v.push(0);
                }
            }
            name = "with-empty";
        }
        5 => {
            // short first piece then everything
            let s = rng.range(1, b.min(len));
            v.push(s);
            if len > s {
                v.push(len - s);
            }
            name = "short+rest";
        }
        _ => {
            let parts = rng.range(3, 12).min(len);
            let mut cuts: Vec<usize> = (0..parts - 1).map(|_| rng.range(0, len)).collect();
            cuts.sort();
            let mut prev = 0;
            for c in cuts {
                v.push(c - prev);
                prev = c;
            }
            v.push(len - prev);
            name = "random";
        }
    }
    debug_assert_eq!(v.iter().sum::<usize>(), len);
    (v, name)
}

pub fn data(rng: &mut Rng, len: usize) -> (Vec<u8>, &'static str) {
    let mut v = vec![0u8; len];
    let name = match rng.below(6) {
        0 => "zeros",
        1 => {
            v.fill(0xFF);
            "ones"
        }
        2 => {
            for (i, b) in v.iter_mut().enumerate() {
                *b = i as u8;
            }
            "incr"
        }
        3 => {
            // repeated block pattern (all blocks equal) -- bait for chaining mistakes
            let pat = rng.bytes(7);
            for (i, b) in v.iter_mut().enumerate() {
                *b = pat[i % 7 % pat.len()];
            }
            "repeat"
        }
        _ => {
            rng.fill(&mut v);
            "random"
        }
    };
    (v, name)
}

pub fn iv(rng: &mut Rng, len: usize) -> (Vec<u8>, &'static str) {
    let mut v = vec![0u8; len];
    let name = match rng.below(5) {
        0 => "zeros",
        1 => {
            v.fill(0xFF);
            "ones"
        }
        _ => {
            rng.fill(&mut v);
            "random"
        }
    };
    (v, name)
}

/// IV for a counter flavour: counter field and nonce words chosen to bait carries
pub fn ctr_iv(rng: &mut Rng, fl: Flavor, len: usize) -> (Vec<u8>, &'static str) {
    let bits = fl.bits().unwrap_or(0) as usize;
    let w = bits / 8;
    let mut v = rng.bytes(len);
    if w == 0 || fl == Flavor::Belt {
        return iv(rng, len);
    }
    let class = rng.below(8);
    let field: u128;
    let name;
    let mask: u128 = if bits == 128 { u128::MAX } else { (1u128 << bits) - 1 };
    match class {
        0 => {
            field = mask;
            name = "field=2^w-1";
        }
        1 => {
            field = mask - 1;
            name = "field=2^w-2";
        }
        2 => {
            field = (1u128 << (bits / 2)) - 1;
            name = "field=2^(w/2)-1";
        }
        3 => {
            field = mask - rng.below(40) as u128;
            name = "field~2^w";
        }
        4 => {
            field = 0;
            name = "field=0";
        }
        5 => {
            // 2^k - 1 for random k, minus a few
            let k = rng.range(1, bits - 1);
            field = ((1u128 << k) - 1).wrapping_sub(rng.below(3) as u128) & mask;
            name = "field=2^k-1";
        }
        _ => {
            field = rng.u128() & mask;
            name = "field=rand";
        }
    }
    // nonce words: sometimes all ones (carry bait), sometimes distinct bytes (order bait)
    match rng.below(3) {
        0 => v.fill(0xFF),
        1 => {
            for (i, b) in v.iter_mut().enumerate() {
                *b = (i as u8).wrapping_mul(0x11).wrapping_add(1);
            }
        }
        _ => {}
    }
    if fl.big_endian() {
        for k in 0..w {
            v[len - 1 - k] = (field >> (8 * k)) as u8;
        }
    } else {
        for k in 0..w {
            v[k] = (field >> (8 * k)) as u8;
        }
    }
    (v, name)
}

/// a 128-bit value assembled from boundary-biased limbs (8, 16, 32 or 64 bits wide): multi-limb
/// arithmetic written by hand (hi/lo splits, narrowing casts) goes wrong at values like
/// k * 2^96 - 3 that no single power-of-two candidate list reaches
pub fn limb_u128(rng: &mut Rng) -> u128 {
    let lb = *rng.pick(&[8u32, 16, 32, 32, 32, 64]);
    let mask: u128 = (1u128 << lb) - 1;
    let mut v: u128 = 0;
    let mut sh = 0;
    while sh < 128 {
        let limb: u128 = match rng.below(8) {
            0 | 1 => 0,
            2 | 3 => mask,
            4 => mask - 1,
            5 => 1,
            6 => 1u128 << (lb - 1),
            _ => rng.u128() & mask,
        };
        v |= limb << sh;
        sh += lb;
    }
    // land just below / on / just above the limb pattern
    match rng.below(4) {
        0 => v.wrapping_sub(rng.below(4) as u128),
        1 => v.wrapping_add(rng.below(4) as u128),
        _ => v,
    }
}
