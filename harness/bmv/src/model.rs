//! Definitional reference models, written from the property statements / NIST SP 800-38A
//! (+ Addendum) / STB 34.101.31 over a black-box (E, D). Scalar, byte-slice based; shares
//! no code with /repo or with `cipher`'s provided methods.

use bmv_core::spy::RefCipher;
use bmv_core::subj::{CtsVar, Flavor, Pad};
use bmv_core::util::xor_into;

fn e(c: &dyn RefCipher, b: &[u8]) -> Vec<u8> {
    let mut t = b.to_vec();
    c.e(&mut t);
    t
}
fn d(c: &dyn RefCipher, b: &[u8]) -> Vec<u8> {
    let mut t = b.to_vec();
    c.d(&mut t);
    t
}
fn x(a: &[u8], b: &[u8]) -> Vec<u8> {
    assert_eq!(a.len(), b.len());
    a.iter().zip(b).map(|(p, q)| p ^ q).collect()
}

// ---------------------------------------------------------------- CBC / PCBC / IGE

/// returns (output, final chaining value)
pub fn cbc_enc(c: &dyn RefCipher, iv: &[u8], pt: &[u8]) -> (Vec<u8>, Vec<u8>) {
    let b = c.bs();
    let mut prev = iv.to_vec();
    let mut out = Vec::with_capacity(pt.len());
    for p in pt.chunks(b) {
        let ci = e(c, &x(p, &prev));
        out.extend_from_slice(&ci);
        prev = ci;
    }
    (out, prev)
}
pub fn cbc_dec(c: &dyn RefCipher, iv: &[u8], ct: &[u8]) -> (Vec<u8>, Vec<u8>) {
    let b = c.bs();
    let mut prev = iv.to_vec();
    let mut out = Vec::with_capacity(ct.len());
    for ci in ct.chunks(b) {
        out.extend_from_slice(&x(&d(c, ci), &prev));
        prev = ci.to_vec();
    }
    (out, prev)
}
/// PCBC: C_i = E(P_i ^ S_{i-1}), S_i = P_i ^ C_i
pub fn pcbc_enc(c: &dyn RefCipher, iv: &[u8], pt: &[u8]) -> (Vec<u8>, Vec<u8>) {
    let b = c.bs();
    let mut s = iv.to_vec();
    let mut out = Vec::new();
    for p in pt.chunks(b) {
        let ci = e(c, &x(p, &s));
        s = x(p, &ci);
        out.extend_from_slice(&ci);
    }
    (out, s)
}
pub fn pcbc_dec(c: &dyn RefCipher, iv: &[u8], ct: &[u8]) -> (Vec<u8>, Vec<u8>) {
    let b = c.bs();
    let mut s = iv.to_vec();
    let mut out = Vec::new();
    for ci in ct.chunks(b) {
        let p = x(&d(c, ci), &s);
        s = x(&p, ci);
        out.extend_from_slice(&p);
    }
    (out, s)
}
/// IGE: C_i = E(P_i ^ C_{i-1}) ^ P_{i-1}; IV = C_0 || P_0; state = C_n || P_n
pub fn ige_enc(c: &dyn RefCipher, iv: &[u8], pt: &[u8]) -> (Vec<u8>, Vec<u8>) {
    let b = c.bs();
    assert_eq!(iv.len(), 2 * b);
    let mut cprev = iv[..b].to_vec();
    let mut pprev = iv[b..].to_vec();
    let mut out = Vec::new();
    for p in pt.chunks(b) {
        let ci = x(&e(c, &x(p, &cprev)), &pprev);
        out.extend_from_slice(&ci);
        cprev = ci;
        pprev = p.to_vec();
    }
    let mut st = cprev;
    st.extend_from_slice(&pprev);
    (out, st)
}
/// inverse: P_i = D(C_i ^ P_{i-1}) ^ C_{i-1}
pub fn ige_dec(c: &dyn RefCipher, iv: &[u8], ct: &[u8]) -> (Vec<u8>, Vec<u8>) {
    let b = c.bs();
    assert_eq!(iv.len(), 2 * b);
    let mut cprev = iv[..b].to_vec();
    let mut pprev = iv[b..].to_vec();
    let mut out = Vec::new();
    for ci in ct.chunks(b) {
        let p = x(&d(c, &x(ci, &pprev)), &cprev);
        out.extend_from_slice(&p);
        cprev = ci.to_vec();
        pprev = p;
    }
    let mut st = cprev;
    st.extend_from_slice(&pprev);
    (out, st)
}

// ---------------------------------------------------------------- CFB / CFB-8 / OFB

/// full-block CFB with a trailing partial block XORed with the leading keystream bytes.
/// Returns (output, chaining value after the last *full* block).
pub fn cfb(c: &dyn RefCipher, iv: &[u8], msg: &[u8], decrypt: bool) -> (Vec<u8>, Vec<u8>) {
    let b = c.bs();
    let mut prev = iv.to_vec();
    let mut out = Vec::with_capacity(msg.len());
    for m in msg.chunks(b) {
        let ks = e(c, &prev);
        let o: Vec<u8> = m.iter().zip(&ks).map(|(p, k)| p ^ k).collect();
        if m.len() == b {
            prev = if decrypt { m.to_vec() } else { o.clone() };
        }
        out.extend_from_slice(&o);
    }
    (out, prev)
}
/// CFB-8 with an explicit shift register of the cipher's block length.
pub fn cfb8(c: &dyn RefCipher, iv: &[u8], msg: &[u8], decrypt: bool) -> (Vec<u8>, Vec<u8>) {
    let b = c.bs();
    let mut s = iv.to_vec();
    assert_eq!(s.len(), b);
    let mut out = Vec::with_capacity(msg.len());
    for &m in msg {
        let ks = e(c, &s)[0];
        let o = m ^ ks;
        let cbyte = if decrypt { m } else { o };
        s.remove(0);
        s.push(cbyte);
        out.push(o);
    }
    (out, s)
}
/// OFB. Returns (output, O_k where k = number of keystream blocks consumed).
pub fn ofb(c: &dyn RefCipher, iv: &[u8], msg: &[u8]) -> (Vec<u8>, Vec<u8>) {
    let b = c.bs();
    let mut o = iv.to_vec();
    let mut out = Vec::with_capacity(msg.len());
    for m in msg.chunks(b) {
        o = e(c, &o);
        out.extend(m.iter().zip(&o).map(|(p, k)| p ^ k));
    }
    (out, o)
}
pub fn ofb_keystream(c: &dyn RefCipher, iv: &[u8], nblocks: usize) -> Vec<u8> {
    let z = vec![0u8; nblocks * c.bs()];
    ofb(c, iv, &z).0
}

// ---------------------------------------------------------------- CTR

/// The counter block for keystream block `i`: the IV with its counter field replaced by
/// (field + i) mod 2^w.
pub fn ctr_block(fl: Flavor, iv: &[u8], i: u128) -> Vec<u8> {
    let bits = fl.bits().expect("ctr flavour");
    let w = (bits / 8) as usize;
    let n = iv.len();
    assert!(n >= w && n % w == 0);
    let mut out = iv.to_vec();
    let mask: u128 = if bits == 128 { u128::MAX } else { (1u128 << bits) - 1 };
    if fl.big_endian() {
        let mut f: u128 = 0;
        for &byte in &iv[n - w..] {
            f = (f << 8) | byte as u128;
        }
        let v = f.wrapping_add(i) & mask;
        for k in 0..w {
            out[n - 1 - k] = (v >> (8 * k)) as u8;
        }
    } else {
        let mut f: u128 = 0;
        for (k, &byte) in iv[..w].iter().enumerate() {
            f |= (byte as u128) << (8 * k);
        }
        let v = f.wrapping_add(i) & mask;
        for k in 0..w {
            out[k] = (v >> (8 * k)) as u8;
        }
    }
    out
}
/// number of keystream blocks one (key, IV) provides
pub fn limit_blocks(fl: Flavor) -> Option<u128> {
    fl.bits().map(|b| if b == 128 { u128::MAX } else { (1u128 << b) - 1 })
}
pub fn ctr_ks_block(c: &dyn RefCipher, fl: Flavor, iv: &[u8], i: u128) -> Vec<u8> {
    e(c, &ctr_block(fl, iv, i))
}

// ---------------------------------------------------------------- BelT-CTR

/// s_0 = LE128(E(IV))
pub fn belt_s0(c: &dyn RefCipher, iv: &[u8]) -> u128 {
    let t = e(c, iv);
    u128::from_le_bytes(t.as_slice().try_into().unwrap())
}
/// cipher input for keystream block with 0-based index i: LE128(s_0 + i + 1)
pub fn belt_block(s0: u128, i: u128) -> Vec<u8> {
    s0.wrapping_add(i).wrapping_add(1).to_le_bytes().to_vec()
}

/// generic keystream block i for any flavour but OFB
pub fn ks_block(c: &dyn RefCipher, fl: Flavor, iv: &[u8], i: u128) -> Vec<u8> {
    match fl {
        Flavor::Belt => e(c, &belt_block(belt_s0(c, iv), i)),
        Flavor::Ofb => panic!("harness: ofb has no random access"),
        _ => ctr_ks_block(c, fl, iv, i),
    }
}
/// what the cipher must be asked to encrypt for keystream block i
pub fn ks_input(c: &dyn RefCipher, fl: Flavor, iv: &[u8], i: u128) -> Vec<u8> {
    match fl {
        Flavor::Belt => belt_block(belt_s0(c, iv), i),
        Flavor::Ofb => panic!("harness: ofb has no random access"),
        _ => ctr_block(fl, iv, i),
    }
}
/// bytes [p, p+n) of the keystream
pub fn ks_bytes(c: &dyn RefCipher, fl: Flavor, iv: &[u8], p: u128, n: usize) -> Vec<u8> {
    let b = c.bs() as u128;
    ks_bytes_at(c, fl, iv, p / b, (p % b) as usize, n)
}
/// `n` keystream bytes starting `off` bytes into keystream block `blk` (block indices wrap
/// mod 2^128 only in the sense that the caller guarantees the range is inside the keystream)
pub fn ks_bytes_at(c: &dyn RefCipher, fl: Flavor, iv: &[u8], blk: u128, off: usize, n: usize) -> Vec<u8> {
    let b = c.bs();
    let mut out = Vec::with_capacity(n);
    let mut i = blk;
    let mut o = off;
    while out.len() < n {
        let kb = ks_block(c, fl, iv, i);
        let take = (b - o).min(n - out.len());
        out.extend_from_slice(&kb[o..o + take]);
        o = 0;
        i = i.wrapping_add(1);
    }
    out
}

// ---------------------------------------------------------------- ciphertext stealing

/// NIST SP 800-38A Addendum. `iv` ignored for the ECB variants. msg.len() >= b.
pub fn cts_enc(c: &dyn RefCipher, var: CtsVar, iv: &[u8], msg: &[u8]) -> Vec<u8> {
    let b = c.bs();
    let l = msg.len();
    assert!(l >= b);
    let n = l.div_ceil(b); // number of blocks, last one of d bytes
    let dl = l - (n - 1) * b; // 1..=b
    // blocks C_1..C_n of the underlying mode on the completed message
    let cblocks: Vec<Vec<u8>> = if var.is_cbc() {
        let mut padded = msg.to_vec();
        padded.resize(n * b, 0);
        cbc_enc(c, iv, &padded).0.chunks(b).map(|v| v.to_vec()).collect()
    } else {
        let mut v: Vec<Vec<u8>> = Vec::new();
        for i in 0..n {
            if i + 1 < n || dl == b {
                v.push(e(c, &msg[i * b..(i + 1) * b]));
            } else {
                // P'_n = P*_n || LSB_{b-d}(C_{n-1})
                let mut last = msg[i * b..].to_vec();
                last.extend_from_slice(&v[n - 2][dl..]);
                v.push(e(c, &last));
            }
        }
        v
    };
    if n == 1 {
        return cblocks[0].clone();
    }
    let mut out = Vec::with_capacity(l);
    for blk in &cblocks[..n - 2] {
        out.extend_from_slice(blk);
    }
    let pen_trunc = &cblocks[n - 2][..dl];
    let last = &cblocks[n - 1];
    let exchange = match var.cs() {
        1 => false,
        2 => dl != b,
        _ => true,
    };
    if exchange {
        out.extend_from_slice(last);
        out.extend_from_slice(pen_trunc);
    } else {
        out.extend_from_slice(pen_trunc);
        out.extend_from_slice(last);
    }
    out
}

pub fn cts_dec(c: &dyn RefCipher, var: CtsVar, iv: &[u8], ct: &[u8]) -> Vec<u8> {
    let b = c.bs();
    let l = ct.len();
    assert!(l >= b);
    let n = l.div_ceil(b);
    let dl = l - (n - 1) * b;
    if n == 1 {
        return if var.is_cbc() { cbc_dec(c, iv, ct).0 } else { d(c, ct) };
    }
    let head = &ct[..(n - 2) * b];
    let rest = &ct[(n - 2) * b..]; // b + d bytes
    let exchanged = match var.cs() {
        1 => false,
        2 => dl != b,
        _ => true,
    };
    let (pen_trunc, last): (&[u8], &[u8]) = if exchanged { (&rest[b..], &rest[..b]) } else { (&rest[..dl], &rest[dl..]) };
    let mut out = Vec::with_capacity(l);
    if var.is_cbc() {
        let (p_head, chain) = cbc_dec(c, iv, head);
        out.extend_from_slice(&p_head);
        // Z = D(C_n); C_{n-1} = C*_{n-1} || LSB_{b-d}(Z); P*_n = MSB_d(Z) ^ C*_{n-1}
        let z = d(c, last);
        let mut cpen = pen_trunc.to_vec();
        cpen.extend_from_slice(&z[dl..]);
        let p_last = x(&z[..dl], pen_trunc);
        let p_pen = x(&d(c, &cpen), &chain);
        out.extend_from_slice(&p_pen);
        out.extend_from_slice(&p_last);
    } else {
        for blk in head.chunks(b) {
            out.extend_from_slice(&d(c, blk));
        }
        let z = d(c, last);
        let mut cpen = pen_trunc.to_vec();
        cpen.extend_from_slice(&z[dl..]);
        out.extend_from_slice(&d(c, &cpen));
        out.extend_from_slice(&z[..dl]);
    }
    out
}

// ---------------------------------------------------------------- padding

/// None = the padding refuses this length (NoPadding on a non-multiple)
pub fn pad(kind: Pad, msg: &[u8], b: usize) -> Option<Vec<u8>> {
    let r = msg.len() % b;
    let fill = b - r;
    let mut out = msg.to_vec();
    match kind {
        Pad::NoPadding => {
            if r != 0 {
                return None;
            }
        }
        Pad::Zero => {
            if r != 0 {
                out.resize(msg.len() + fill, 0);
            }
        }
        Pad::Pkcs7 => out.resize(msg.len() + fill, fill as u8),
        Pad::Iso7816 => {
            out.push(0x80);
            out.resize(msg.len() + fill, 0);
        }
        Pad::AnsiX923 => {
            out.resize(msg.len() + fill - 1, 0);
            out.push(fill as u8);
        }
    }
    Some(out)
}
/// Is `msg` recovered exactly by unpadding `pad(msg)`? (ZeroPadding is ambiguous for
/// messages ending in a zero byte.)
pub fn pad_roundtrips(kind: Pad, msg: &[u8], b: usize) -> bool {
    match kind {
        Pad::NoPadding => msg.len() % b == 0,
        Pad::Zero => msg.last().map(|&v| v != 0).unwrap_or(true) || false,
        _ => true,
    }
}

#[allow(dead_code)]
pub fn xor_bytes(a: &mut [u8], b: &[u8]) {
    xor_into(a, b)
}
