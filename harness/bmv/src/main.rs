//! bmv — runtime monitors for RustCrypto/block-modes (properties C01..C17).
//!
//!   bmv run --prop C07 --tier quick --seed 1 --jobs 16 --out result.json
//!   bmv replay --prop C07 --cfg toy8x3 --case-seed 123
//!   bmv selfcheck

mod allcfgs;
mod ctx;
#[cfg(target_pointer_width = "64")]
mod huge;
#[cfg(target_pointer_width = "64")]
mod huge2;
mod model;
mod mon;
mod selfcheck;
mod wl;

use bmv_core::subj::Cfg;
use bmv_core::util::{self, J, guard, hash_str, mix};
use ctx::{Ctx, Stats, Tier};
use std::sync::Arc;
use std::sync::atomic::{AtomicBool, AtomicUsize, Ordering};
use std::time::{Duration, Instant};

static ALL_CFGS: std::sync::OnceLock<Vec<Cfg>> = std::sync::OnceLock::new();
/// every configuration (level 2), built once; used to find width twins
pub fn all_cfgs_cached() -> &'static [Cfg] {
    // (under Miri: without the thorough-only configurations; merely observing the width of an 8192-wide toy costs minutes there)
    ALL_CFGS.get_or_init(|| allcfgs::all_cfgs(if cfg!(miri) { 1 } else { 2 }))
}

fn arg<'a>(args: &'a [String], name: &str) -> Option<&'a str> {
    args.iter().position(|a| a == name).and_then(|i| args.get(i + 1)).map(|s| s.as_str())
}

fn main() {
    let args: Vec<String> = std::env::args().collect();
    util::install_panic_hook();
    let cmd = args.get(1).map(|s| s.as_str()).unwrap_or("");
    let code = match cmd {
        "run" => cmd_run(&args),
        "replay" => cmd_replay(&args),
        "selfcheck" => match selfcheck::run() {
            Ok(n) => {
                println!("oracle self-check passed: {} vectors/cases", n);
                0
            }
            Err(e) => {
                println!("oracle self-check FAILED: {}", e);
                2
            }
        },
        "noop" => 0,
        #[cfg(target_pointer_width = "64")]
        "huge" => {
            let prop = arg(&args, "--prop").expect("--prop");
            let j = if arg(&args, "--kind") == Some("blocks32") { huge2::run(prop, args.iter().any(|a| a == "--quick")) } else { huge::run(prop) };
            write_out(arg(&args, "--out"), &j);
            0
        }
        "list" => {
            for c in allcfgs::all_cfgs(2) {
                println!("{} bs={} par={} enc_only={} real={}", c.name, c.bs, c.par, c.enc_only, c.real);
            }
            0
        }
        _ => {
            eprintln!("usage: bmv run|replay|selfcheck|list ...");
            3
        }
    };
    std::process::exit(code);
}

pub const STACK: usize = if cfg!(target_pointer_width = "64") { 512 << 20 } else { 64 << 20 };

fn tier_of(s: &str) -> Tier {
    match s {
        "thorough" => Tier::Thorough,
        "slice" => Tier::Slice,
        _ => Tier::Quick,
    }
}

fn cmd_run(args: &[String]) -> i32 {
    let prop = arg(args, "--prop").expect("--prop");
    let tier = tier_of(arg(args, "--tier").unwrap_or("quick"));
    let seed: u64 = arg(args, "--seed").and_then(|s| s.parse().ok()).unwrap_or(1);
    let jobs: usize = arg(args, "--jobs").and_then(|s| s.parse().ok()).unwrap_or(16);
    let out = arg(args, "--out");
    let budget_s: u64 = arg(args, "--budget-s").and_then(|s| s.parse().ok()).unwrap_or(match tier {
        Tier::Quick => 40,
        Tier::Thorough => 420,
        Tier::Slice => 3000,
    });
    let t0 = Instant::now();
    let mons = mon::monitors();
    let Some(m) = mons.iter().find(|m| m.prop == prop) else {
        eprintln!("no monitor for {}", prop);
        return 3;
    };
    let mut result = J::obj().set("property", J::s(prop)).set(
        "tier",
        J::s(match tier {
            Tier::Quick => "quick",
            Tier::Thorough => "thorough",
            Tier::Slice => "slice",
        }),
    );
    result.put("seed", J::i(seed as i128));
    // oracle self-check: a failure is a harness error, never a violation
    let sc = selfcheck::run();
    match &sc {
        Ok(n) => result.put("selfcheck", J::s(format!("passed ({} vectors/cases)", n))),
        Err(e) => {
            result.put("selfcheck", J::s(format!("FAILED: {}", e)));
            result.put("harness_errors", J::Arr(vec![J::s(format!("oracle self-check failed: {}", e))]));
            write_out(out, &result);
            return 2;
        }
    }
    let level = match tier {
        Tier::Slice => 0,
        Tier::Quick => 2,
        Tier::Thorough => 2,
    };
    let level = arg(args, "--cfg-level").and_then(|s| s.parse().ok()).unwrap_or(level);
    let mut cfgs = allcfgs::all_cfgs(level);
    if let Some(only) = arg(args, "--only-cfg") {
        cfgs.retain(|c| c.name == only);
    }
    if cfg!(miri) {
        cfgs.retain(|c| !c.real);
    }
    match arg(args, "--cfg-filter") {
        Some("stream") => cfgs.retain(|c| !c.streams.is_empty()),
        Some("belt") => cfgs.retain(|c| c.stream(bmv_core::subj::Flavor::Belt).is_some()),
        _ => {}
    }
    if let Some(f) = arg(args, "--focus") {
        ctx::set_focus(f);
    }
    if cfgs.is_empty() {
        result.put("harness_errors", J::Arr(vec![J::s("no cipher configuration left after filtering")]));
        write_out(out, &result);
        return 2;
    }
    let ncases: u64 = arg(args, "--cases").and_then(|s| s.parse().ok()).unwrap_or(match tier {
        Tier::Quick => m.cases.0,
        Tier::Thorough => m.cases.1,
        Tier::Slice => m.cases.2,
    });
    let cfgs: Arc<Vec<Cfg>> = Arc::new(cfgs);
    let next = Arc::new(AtomicUsize::new(0));
    let stop = Arc::new(AtomicBool::new(false));
    let run_fn = m.run;
    let prop_s: &'static str = m.prop;
    let base = mix(seed, hash_str(prop_s));
    let jobs = jobs.max(1).min(64);
    let mut handles = Vec::new();
    for _ in 0..jobs {
        let cfgs = cfgs.clone();
        let next = next.clone();
        let stop = stop.clone();
        // very wide backends keep whole ParBlocks batches (bs x width, up to ~140 KiB each) on the stack
        handles.push(std::thread::Builder::new().stack_size(STACK).spawn(move || {
            let mut st = Stats::default();
            loop {
                if stop.load(Ordering::Relaxed) {
                    break;
                }
                let i = next.fetch_add(1, Ordering::Relaxed) as u64;
                if i >= ncases {
                    break;
                }
                let cfg = &cfgs[(i % cfgs.len() as u64) as usize];
                let case_seed = mix(base, i);
                run_case(prop_s, run_fn, cfg, case_seed, tier, &mut st);
            }
            st
        }).expect("spawn worker"));
    }
    // watchdog: never a verdict, only stops handing out new cases
    let wd_stop = stop.clone();
    let wd_next = next.clone();
    let wd = std::thread::spawn(move || {
        let deadline = Instant::now() + Duration::from_secs(budget_s);
        while Instant::now() < deadline {
            if wd_next.load(Ordering::Relaxed) as u64 >= ncases {
                return false;
            }
            std::thread::sleep(Duration::from_millis(50));
        }
        wd_stop.store(true, Ordering::Relaxed);
        true
    });
    let mut total = Stats::default();
    for h in handles {
        match h.join() {
            Ok(st) => total.merge(st),
            Err(_) => total.harness_errors.push("worker thread died".into()),
        }
    }
    let fired = wd.join().unwrap_or(false);
    let names: Vec<String> = cfgs.iter().map(|c| c.name.clone()).collect();
    let unmet = (m.thresholds)(&total, tier, &names);
    result.put("evaluations", J::i(total.evaluations as i128));
    result.put("cases_planned", J::i(ncases as i128));
    result.put("distinct_nontrivial", J::i(total.cells.len() as i128));
    result.put("rule", J::s(m.rule));
    result.put("api_calls", J::i(total.api_calls as i128));
    let ce = total.cipher_events;
    result.put(
        "cipher_events",
        J::obj()
            .set("E_single", J::i(ce[0] as i128))
            .set("E_par", J::i(ce[1] as i128))
            .set("E_tail", J::i(ce[2] as i128))
            .set("D_single", J::i(ce[3] as i128))
            .set("D_par", J::i(ce[4] as i128))
            .set("D_tail", J::i(ce[5] as i128)),
    );
    result.put("configs", J::Arr(names.iter().map(J::s).collect()));
    result.put("per_cfg", J::Obj(total.per_cfg.iter().map(|(k, v)| (k.clone(), J::i(*v as i128))).collect()));
    result.put("per_subject", J::Obj(total.per_subject.iter().map(|(k, v)| (k.clone(), J::i(*v as i128))).collect()));
    result.put("counters", J::Obj(total.counters.iter().map(|(k, v)| (k.clone(), J::i(*v as i128))).collect()));
    result.put("samples", J::Arr(total.samples.clone()));
    result.put("violations_total", J::i(total.violations_total as i128));
    result.put("violations_by_signature", J::Obj(total.violations_by_sig.iter().map(|(k, v)| (k.clone(), J::i(*v as i128))).collect()));
    result.put("violations", J::Arr(total.violations.iter().map(|v| v.to_json()).collect()));
    result.put("thresholds_unmet", J::Arr(unmet.iter().map(J::s).collect()));
    result.put("watchdog_fired", J::Bool(fired));
    result.put("harness_errors", J::Arr(total.harness_errors.iter().take(20).map(J::s).collect()));
    result.put("cells_sample", J::Arr(total.cells.iter().take(12).map(J::s).collect()));
    result.put("wall_s", J::Num(t0.elapsed().as_secs_f64()));
    result.put("profile", J::s(if cfg!(debug_assertions) { "checked" } else { "plain" }));
    result.put("zeroize_feature", J::Bool(cfg!(feature = "zeroize")));
    result.put("platform", platform());
    result.put("concrete_receiver_types_registered", J::i(bmv_core::subj::conc_registered() as i128));
    write_out(out, &result);
    if !total.harness_errors.is_empty() {
        return 2;
    }
    0
}

/// what the build under test was compiled for (cfg-dependent code paths differ between these)
pub fn platform() -> J {
    let mut feats = Vec::new();
    for (n, on) in [
        ("sse2", cfg!(target_feature = "sse2")),
        ("ssse3", cfg!(target_feature = "ssse3")),
        ("sse4.1", cfg!(target_feature = "sse4.1")),
        ("avx", cfg!(target_feature = "avx")),
        ("avx2", cfg!(target_feature = "avx2")),
        ("avx512f", cfg!(target_feature = "avx512f")),
        ("aes", cfg!(target_feature = "aes")),
        ("bmi2", cfg!(target_feature = "bmi2")),
    ] {
        if on {
            feats.push(J::s(n));
        }
    }
    J::obj()
        .set("arch", J::s(std::env::consts::ARCH))
        .set("endian", J::s(if cfg!(target_endian = "big") { "big" } else { "little" }))
        .set("pointer_width", J::i(usize::BITS as i128))
        .set("miri", J::Bool(cfg!(miri)))
        .set("target_features", J::Arr(feats))
}

fn run_case(prop: &'static str, run_fn: fn(&mut Ctx), cfg: &Cfg, case_seed: u64, tier: Tier, st: &mut Stats) {
    st.evaluations += 1;
    *st.per_cfg.entry(cfg.name.clone()).or_insert(0) += 1;
    let r = guard(|| {
        let mut ctx = Ctx::new(prop, cfg, case_seed, tier, st);
        bmv_core::spy::log_start();
        run_fn(&mut ctx);
        let _ = ctx.take_log();
        if ctx.nontrivial && !ctx.violated {
            ctx.sample();
        }
    });
    bmv_core::spy::log_stop();
    if let Err(p) = r {
        // a panic that escaped the monitor's own guards is a harness defect, not a verdict
        if st.harness_errors.len() < 20 {
            st.harness_errors.push(format!("monitor panicked (cfg {}, case_seed {}): {}", cfg.name, case_seed, p.0));
        }
    }
}

fn write_out(out: Option<&str>, j: &J) {
    let s = j.to_string();
    match out {
        Some(p) => std::fs::write(p, s).expect("write result"),
        None => println!("{}", s),
    }
}

fn cmd_replay(args: &[String]) -> i32 {
    let prop = arg(args, "--prop").expect("--prop");
    let cfgname = arg(args, "--cfg").expect("--cfg");
    let case_seed: u64 = arg(args, "--case-seed").and_then(|s| s.parse().ok()).expect("--case-seed");
    let tier = tier_of(arg(args, "--tier").unwrap_or("quick"));
    let mons = mon::monitors();
    let Some(m) = mons.iter().find(|m| m.prop == prop) else {
        eprintln!("no monitor for {}", prop);
        return 3;
    };
    let cfgs = allcfgs::all_cfgs(2);
    let Some(cfg) = cfgs.iter().find(|c| c.name == cfgname) else {
        eprintln!("no cfg {}", cfgname);
        return 3;
    };
    let mut st = Stats::default();
    run_case(m.prop, m.run, cfg, case_seed, tier, &mut st);
    let res = J::obj()
        .set("violations", J::Arr(st.violations.iter().map(|v| v.to_json()).collect()))
        .set("harness_errors", J::Arr(st.harness_errors.iter().map(J::s).collect()))
        .set("samples", J::Arr(st.samples.clone()));
    write_out(arg(args, "--out"), &res);
    if !st.harness_errors.is_empty() {
        2
    } else if st.violations.is_empty() {
        0
    } else {
        1
    }
}
