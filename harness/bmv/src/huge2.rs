//! "2^32 blocks" slice: block *counts* that do not survive a cast to u32 (the byte-length
//! counterpart is huge.rs). Only a cipher that costs a few cycles per block makes 2^32 block
//! operations affordable, so this slice brings its own: `Cheap16` (16-byte blocks, width 8) and
//! `Cheap1` (1-byte blocks, width 4), keyed bijections whose inverse the harness owns too.
//!
//!   stream cores (C04, C06, C10): ONE `process_with_backend` call generating 2^32 + 21 keystream
//!     blocks (gen_par_ks_blocks batches, then single blocks); the last 13 blocks of the call, the
//!     position reported afterwards and the first block of the next call are compared with the
//!     definitional model E(counter block i).
//!   byte streams over 24- and 3-byte blocks (C08, C14): buffered CFB and CTR, one call of
//!     2^32 + 1000 bytes vs the same string in pieces (a length whose truncation to 32 bits changes
//!     its residue modulo the block size, which a 16-byte block cannot show).
//!   CTS with 1-byte blocks (C01, C05, C13): one message of 2^32 + 2 blocks through all six
//!     variants, in place: no panic / no rejection (C13), ciphertext equals the streaming model
//!     (C05), decrypt(encrypt(m)) = m (C01).

use bmv_core::re::cipher::{
    AlgorithmName, Array, Block, BlockCipherDecBackend, BlockCipherDecClosure, BlockCipherDecrypt, BlockCipherEncBackend, BlockCipherEncClosure,
    BlockCipherEncrypt, BlockSizeUser, InOut, InnerIvInit, ParBlocks, ParBlocksSizeUser, StreamCipherBackend, StreamCipherClosure, StreamCipherCore,
    StreamCipher, StreamCipherSeekCore,
    consts::{U1, U3, U4, U5, U8, U16, U24},
    crypto_common::InnerInit,
    typenum::Unsigned,
};
use bmv_core::re::{belt_ctr, cfb_mode, ctr, cts};
use bmv_core::spy::RefCipher;
use bmv_core::subj::Flavor;
use bmv_core::util::{J, guard};
use core::fmt;
use std::time::Instant;

use crate::model;

// ---------------------------------------------------------------- cheap ciphers

const ODD: u128 = 0x9E37_79B9_7F4A_7C15_F39C_C060_5CED_C835;
const fn inv_odd(a: u128) -> u128 {
    // Newton iteration for the inverse mod 2^128
    let mut x: u128 = a; // correct to 3 bits
    let mut i = 0;
    while i < 7 {
        x = x.wrapping_mul(2u128.wrapping_sub(a.wrapping_mul(x)));
        i += 1;
    }
    x
}
const ODD_INV: u128 = inv_odd(ODD);

#[derive(Clone)]
pub struct Cheap16 {
    k1: u128,
    k2: u128,
}
impl Cheap16 {
    pub fn new(k1: u128, k2: u128) -> Self {
        Cheap16 { k1, k2 }
    }
    #[inline(always)]
    fn e(&self, x: u128) -> u128 {
        (x ^ self.k1).wrapping_mul(ODD).rotate_left(41) ^ self.k2
    }
    #[inline(always)]
    fn d(&self, y: u128) -> u128 {
        (y ^ self.k2).rotate_right(41).wrapping_mul(ODD_INV) ^ self.k1
    }
    #[inline(always)]
    fn eb(&self, b: &mut [u8]) {
        let x = u128::from_le_bytes(b[..16].try_into().unwrap());
        b[..16].copy_from_slice(&self.e(x).to_le_bytes());
    }
    #[inline(always)]
    fn db(&self, b: &mut [u8]) {
        let x = u128::from_le_bytes(b[..16].try_into().unwrap());
        b[..16].copy_from_slice(&self.d(x).to_le_bytes());
    }
}

#[derive(Clone)]
pub struct Cheap1 {
    k1: u8,
    k2: u8,
}
const ODD8: u8 = 0xB5;
const ODD8_INV: u8 = inv_odd(ODD8 as u128) as u8;
impl Cheap1 {
    pub fn new(k1: u8, k2: u8) -> Self {
        Cheap1 { k1, k2 }
    }
    #[inline(always)]
    fn e(&self, x: u8) -> u8 {
        (x ^ self.k1).wrapping_mul(ODD8).rotate_left(3) ^ self.k2
    }
    #[inline(always)]
    fn d(&self, y: u8) -> u8 {
        (y ^ self.k2).rotate_right(3).wrapping_mul(ODD8_INV) ^ self.k1
    }
    #[inline(always)]
    fn eb(&self, b: &mut [u8]) {
        b[0] = self.e(b[0]);
    }
    #[inline(always)]
    fn db(&self, b: &mut [u8]) {
        b[0] = self.d(b[0]);
    }
}

/// byte-wise cheap bijection for any block size (used with 24- and 3-byte blocks: sizes that do
/// not divide 2^32)
#[derive(Clone)]
pub struct CheapN<BS> {
    k: [u8; 16],
    _p: core::marker::PhantomData<BS>,
}
impl<BS> CheapN<BS> {
    pub fn new(seed: u8) -> Self {
        let mut k = [0u8; 16];
        for (i, b) in k.iter_mut().enumerate() {
            *b = seed.wrapping_mul(31).wrapping_add((i as u8).wrapping_mul(0x6D)) ^ 0xA7;
        }
        CheapN { k, _p: core::marker::PhantomData }
    }
    #[inline(always)]
    fn eb(&self, x: &mut [u8]) {
        let n = x.len();
        for i in 0..n {
            x[i] = (x[i] ^ self.k[i & 15]).wrapping_mul(ODD8).rotate_left(3);
        }
        for i in 1..n {
            x[i] ^= x[i - 1];
        }
        if n > 1 {
            x[0] ^= x[n - 1].rotate_left(1);
        }
    }
    #[inline(always)]
    fn db(&self, x: &mut [u8]) {
        let n = x.len();
        if n > 1 {
            x[0] ^= x[n - 1].rotate_left(1);
        }
        for i in (1..n).rev() {
            x[i] ^= x[i - 1];
        }
        for i in 0..n {
            x[i] = x[i].rotate_right(3).wrapping_mul(ODD8_INV) ^ self.k[i & 15];
        }
    }
}

macro_rules! cheap_impls {
    ($t:ty, $bk:ident, $bs:ty, $par:ty, $nm:expr) => {
        pub struct $bk<'a>(&'a $t);
        impl BlockSizeUser for $t {
            type BlockSize = $bs;
        }
        impl BlockSizeUser for $bk<'_> {
            type BlockSize = $bs;
        }
        impl ParBlocksSizeUser for $bk<'_> {
            type ParBlocksSize = $par;
        }
        impl AlgorithmName for $t {
            fn write_alg_name(f: &mut fmt::Formatter<'_>) -> fmt::Result {
                f.write_str($nm)
            }
        }
        impl fmt::Debug for $t {
            fn fmt(&self, f: &mut fmt::Formatter<'_>) -> fmt::Result {
                f.write_str(concat!($nm, " { ... }"))
            }
        }
        impl BlockCipherEncBackend for $bk<'_> {
            #[inline(always)]
            fn encrypt_block(&self, mut block: InOut<'_, '_, Block<Self>>) {
                let mut t = block.clone_in();
                self.0.eb(&mut t);
                *block.get_out() = t;
            }
            #[inline(always)]
            fn encrypt_par_blocks(&self, mut blocks: InOut<'_, '_, ParBlocks<Self>>) {
                let mut t = blocks.clone_in();
                for b in t.iter_mut() {
                    self.0.eb(b);
                }
                *blocks.get_out() = t;
            }
        }
        impl BlockCipherDecBackend for $bk<'_> {
            #[inline(always)]
            fn decrypt_block(&self, mut block: InOut<'_, '_, Block<Self>>) {
                let mut t = block.clone_in();
                self.0.db(&mut t);
                *block.get_out() = t;
            }
            #[inline(always)]
            fn decrypt_par_blocks(&self, mut blocks: InOut<'_, '_, ParBlocks<Self>>) {
                let mut t = blocks.clone_in();
                for b in t.iter_mut() {
                    self.0.db(b);
                }
                *blocks.get_out() = t;
            }
        }
        impl BlockCipherEncrypt for $t {
            #[inline(always)]
            fn encrypt_with_backend(&self, f: impl BlockCipherEncClosure<BlockSize = $bs>) {
                f.call(&$bk(self))
            }
        }
        impl BlockCipherDecrypt for $t {
            #[inline(always)]
            fn decrypt_with_backend(&self, f: impl BlockCipherDecClosure<BlockSize = $bs>) {
                f.call(&$bk(self))
            }
        }
        impl RefCipher for $t {
            fn bs(&self) -> usize {
                <$bs as Unsigned>::USIZE
            }
            fn e(&self, b: &mut [u8]) {
                self.eb(b)
            }
            fn d(&self, b: &mut [u8]) {
                self.db(b)
            }
            fn has_d(&self) -> bool {
                true
            }
        }
    };
}
cheap_impls!(Cheap16, Cheap16Bk, U16, U8, "Cheap16");
cheap_impls!(Cheap1, Cheap1Bk, U1, U4, "Cheap1");
cheap_impls!(CheapN<U24>, Cheap24Bk, U24, U4, "Cheap24");
cheap_impls!(CheapN<U3>, Cheap3Bk, U3, U5, "Cheap3");

// ---------------------------------------------------------------- output

struct Out {
    checks: Vec<J>,
    viols: Vec<J>,
    prop: String,
}
impl Out {
    fn check(&mut self, name: &str, blocks: u128, secs: f64, res: Result<(), String>) {
        let ok = res.is_ok();
        let unit = if name.starts_with("byte-stream") { "bytes" } else { "blocks" };
        self.checks.push(J::obj().set("name", J::s(name)).set(&format!("{}_in_one_call", unit), J::s(blocks.to_string())).set("secs", J::Num(secs)).set("ok", J::Bool(ok)));
        if let Err(e) = res {
            let sig = if e.contains("panicked") { format!("{}/panic/blocks32/{}", self.prop, name) } else { format!("{}/blocks32/{}", self.prop, name) };
            self.viols.push(
                J::obj()
                    .set("property", J::s(&self.prop))
                    .set("signature", J::s(sig))
                    .set("detail", J::s(format!("one call of {} {}: {}", blocks, unit, e)))
                    .set("cfg", J::s("cheap-blocks32"))
                    .set("case_seed", J::s("0")),
            );
        }
    }
}

// ---------------------------------------------------------------- stream cores

const NBLK: u64 = (1u64 << 32) + 21;
const KEEP: usize = 13;

/// generates NBLK keystream blocks in one backend call, keeps the last KEEP
struct LongKs<'a> {
    last: &'a mut Vec<[u8; 16]>,
    singles_first: u64,
}
impl BlockSizeUser for LongKs<'_> {
    type BlockSize = U16;
}
impl StreamCipherClosure for LongKs<'_> {
    fn call<B: StreamCipherBackend<BlockSize = U16>>(self, backend: &mut B) {
        let w = B::ParBlocksSize::U64.max(1);
        let mut left = NBLK;
        let mut one = Array::<u8, U16>::default();
        // a few single blocks first (so batches do not start at a multiple of the width) ...
        for _ in 0..self.singles_first {
            backend.gen_ks_block(&mut one);
            left -= 1;
        }
        // ... then whole batches while more than KEEP + w blocks remain ...
        let mut par = ParBlocks::<B>::default();
        while left > KEEP as u64 + w && w > 1 {
            backend.gen_par_ks_blocks(&mut par);
            // keep the optimiser from discarding the keystream altogether
            std::hint::black_box(&par);
            left -= w;
        }
        // ... then single blocks; the last KEEP of the call are recorded
        while left > 0 {
            backend.gen_ks_block(&mut one);
            if left <= KEEP as u64 {
                self.last.push(one.as_slice().try_into().unwrap());
            }
            left -= 1;
        }
    }
}
struct OneKs<'a>(&'a mut [u8; 16]);
impl BlockSizeUser for OneKs<'_> {
    type BlockSize = U16;
}
impl StreamCipherClosure for OneKs<'_> {
    fn call<B: StreamCipherBackend<BlockSize = U16>>(self, backend: &mut B) {
        let mut one = Array::<u8, U16>::default();
        backend.gen_ks_block(&mut one);
        self.0.copy_from_slice(&one);
    }
}

fn stream_core<T>(out: &mut Out, name: &str, fl: Flavor, mut core: T, c: &Cheap16, iv: &[u8], singles_first: u64, pos_of: fn(&T) -> u128)
where
    T: StreamCipherCore<BlockSize = U16>,
{
    let t = Instant::now();
    let mut last: Vec<[u8; 16]> = Vec::new();
    let mut next = [0u8; 16];
    let r = guard(|| {
        core.process_with_backend(LongKs { last: &mut last, singles_first });
        let pos = pos_of(&core);
        core.process_with_backend(OneKs(&mut next));
        pos
    });
    let res = match r {
        Err(p) => Err(format!("panicked: {}", p.0)),
        Ok(pos) => {
            let mut res = Ok(());
            if last.len() != KEEP {
                res = Err(format!("harness: recorded {} blocks", last.len()));
            }
            for (j, got) in last.iter().enumerate() {
                let i = NBLK as u128 - KEEP as u128 + j as u128;
                let want = model::ks_block(c, fl, iv, i);
                if res.is_ok() && want != got {
                    res = Err(format!(
                        "keystream block {} of the call is {} but E(counter block {}) is {}",
                        i,
                        bmv_core::util::hex(got),
                        i,
                        bmv_core::util::hex(&want)
                    ));
                }
            }
            if res.is_ok() && pos != NBLK as u128 {
                res = Err(format!("after generating {} blocks the core reports block position {}", NBLK, pos));
            }
            let want = model::ks_block(c, fl, iv, NBLK as u128);
            if res.is_ok() && want != next {
                res = Err(format!("the first block of the next call is {} but E(counter block {}) is {}", bmv_core::util::hex(&next), NBLK, bmv_core::util::hex(&want)));
            }
            res
        }
    };
    out.check(&format!("stream-core/{}/singles-first={}", name, singles_first), NBLK as u128, t.elapsed().as_secs_f64(), res);
}

fn pos_ctr<F: ctr::flavors::CtrFlavor<U16>>(c: &ctr::CtrCore<Cheap16, F>) -> u128
where
    F::Backend: TryInto<u128>,
{
    match c.get_block_pos().try_into() {
        Ok(v) => v,
        Err(_) => u128::MAX,
    }
}

fn streams(out: &mut Out, which: &[Flavor]) {
    let c = Cheap16::new(0x0123_4567_89AB_CDEF_0F1E_2D3C_4B5A_6978, 0xA5A5_5A5A_C3C3_3C3C_9669_6996_F00F_0FF0);
    // IVs whose counter field sits a little below 2^32 / 2^64 so that the long call also crosses a limb boundary
    let mut iv = [0x5Au8; 16];
    iv[12..].copy_from_slice(&0xFFFF_FF00u32.to_be_bytes());
    iv[..4].copy_from_slice(&0xFFFF_FF00u32.to_le_bytes());
    let ivb = Array::<u8, U16>::try_from(&iv[..]).unwrap();
    for (k, fl) in which.iter().enumerate() {
        let sf = [0u64, 3, 5][k % 3];
        match fl {
            Flavor::Ctr64BE => stream_core(out, "ctr64be", *fl, ctr::CtrCore::<Cheap16, ctr::flavors::Ctr64BE>::inner_iv_init(c.clone(), &ivb), &c, &iv, sf, pos_ctr),
            Flavor::Ctr64LE => stream_core(out, "ctr64le", *fl, ctr::CtrCore::<Cheap16, ctr::flavors::Ctr64LE>::inner_iv_init(c.clone(), &ivb), &c, &iv, sf, pos_ctr),
            Flavor::Ctr128BE => stream_core(out, "ctr128be", *fl, ctr::CtrCore::<Cheap16, ctr::flavors::Ctr128BE>::inner_iv_init(c.clone(), &ivb), &c, &iv, sf, pos_ctr),
            Flavor::Ctr128LE => stream_core(out, "ctr128le", *fl, ctr::CtrCore::<Cheap16, ctr::flavors::Ctr128LE>::inner_iv_init(c.clone(), &ivb), &c, &iv, sf, pos_ctr),
            Flavor::Belt => stream_core(out, "beltctr", *fl, belt_ctr::BeltCtrCore::<Cheap16>::inner_iv_init(c.clone(), &ivb), &c, &iv, sf, |c| c.get_block_pos()),
            _ => {}
        }
    }
}

// ---------------------------------------------------------------- CTS, 1-byte blocks

const LEN1: usize = (1usize << 32) + 2;

fn pat(i: usize) -> u8 {
    ((i.wrapping_mul(0x9E37_79B1)) >> 13) as u8 ^ (i >> 21) as u8
}

/// CBC-CSx / ECB-CSx for 1-byte blocks: every length is a whole number of blocks, so CS1 and CS2
/// are the plain mode and CS3 swaps the last two blocks. Compared while streaming.
fn cts1_model_mismatch(c: &Cheap1, cbc: bool, cs3: bool, iv: u8, ct: &[u8]) -> Option<usize> {
    let n = ct.len();
    let mut prev = iv;
    for i in 0..n {
        let p = pat(i);
        let want = if cbc { c.e(p ^ prev) } else { c.e(p) };
        prev = want;
        let at = if cs3 && n >= 2 && i >= n - 2 { if i == n - 2 { n - 1 } else { n - 2 } } else { i };
        if ct[at] != want {
            return Some(at);
        }
    }
    None
}

macro_rules! cts1 {
    ($out:expr, $buf:expr, $name:expr, $mk:expr, $c:expr, $cbc:expr, $cs3:expr, $iv:expr, $model:expr, $rt:expr) => {{
        for (i, b) in $buf.iter_mut().enumerate() {
            *b = pat(i);
        }
        let t = Instant::now();
        let r = guard(|| cts::Encrypt::encrypt($mk, $buf));
        let res = match r {
            Err(p) => Err(format!("encrypt panicked: {}", p.0)),
            Ok(Err(_)) => Err("encrypt rejected a message of 2^32+2 one-byte blocks".to_string()),
            Ok(Ok(())) => {
                if $model {
                    match cts1_model_mismatch($c, $cbc, $cs3, $iv, $buf) {
                        None => Ok(()),
                        Some(i) => Err(format!("ciphertext differs from the definitional model at block {}", i)),
                    }
                } else {
                    Ok(())
                }
            }
        };
        let enc_ok = res.is_ok();
        $out.check(&format!("cts-1byte/{}/enc", $name), LEN1 as u128, t.elapsed().as_secs_f64(), res);
        if enc_ok {
            let t = Instant::now();
            let r = guard(|| cts::Decrypt::decrypt($mk, $buf));
            let res = match r {
                Err(p) => Err(format!("decrypt panicked: {}", p.0)),
                Ok(Err(_)) => Err("decrypt rejected a ciphertext of 2^32+2 one-byte blocks".to_string()),
                Ok(Ok(())) => {
                    if $rt {
                        match $buf.iter().enumerate().position(|(i, &b)| b != pat(i)) {
                            None => Ok(()),
                            Some(i) => Err(format!("decrypt(encrypt(m)) differs from m at block {}", i)),
                        }
                    } else {
                        Ok(())
                    }
                }
            };
            $out.check(&format!("cts-1byte/{}/dec", $name), LEN1 as u128, t.elapsed().as_secs_f64(), res);
        }
    }};
}

fn cts_one_byte(out: &mut Out, variants: &[&str], model: bool, rt: bool) {
    let c = Cheap1::new(0x3D, 0xC6);
    let ivv = 0x71u8;
    let iv = Array::<u8, U1>::from([ivv]);
    let mut buf = vec![0u8; LEN1];
    let buf = &mut buf[..];
    for v in variants {
        match *v {
            "cbc_cs1" => cts1!(out, buf, v, cts::CbcCs1::<Cheap1>::inner_iv_init(c.clone(), &iv), &c, true, false, ivv, model, rt),
            "cbc_cs2" => cts1!(out, buf, v, cts::CbcCs2::<Cheap1>::inner_iv_init(c.clone(), &iv), &c, true, false, ivv, model, rt),
            "cbc_cs3" => cts1!(out, buf, v, cts::CbcCs3::<Cheap1>::inner_iv_init(c.clone(), &iv), &c, true, true, ivv, model, rt),
            "ecb_cs1" => cts1!(out, buf, v, cts::EcbCs1::<Cheap1>::inner_init(c.clone()), &c, false, false, ivv, model, rt),
            "ecb_cs2" => cts1!(out, buf, v, cts::EcbCs2::<Cheap1>::inner_init(c.clone()), &c, false, false, ivv, model, rt),
            _ => cts1!(out, buf, v, cts::EcbCs3::<Cheap1>::inner_init(c.clone()), &c, false, true, ivv, model, rt),
        }
    }
}

// ---------------------------------------------------------------- byte streams, block size not dividing 2^32

const LENB: usize = (1usize << 32) + 1000;
const PIECE: usize = (1 << 20) + 7;

/// one call on the whole 2^32+1000-byte string == the same string fed in pieces (then: one-call
/// decryption gives the plaintext back), for block sizes 24 and 3
fn byte_streams(out: &mut Out, buf: &mut [u8], quick: bool) {
    macro_rules! one {
        ($name:expr, $whole:expr, $pieces:expr, $inverse:expr) => {{
            for (i, b) in buf.iter_mut().enumerate() {
                *b = pat(i);
            }
            let t = Instant::now();
            let r = guard(|| {
                $whole(&mut *buf);
            });
            let mut res = r.map_err(|p| format!("one call on the whole string panicked: {}", p.0));
            if res.is_ok() {
                let r = guard(|| -> Result<(), String> {
                    let mut piece = vec![0u8; PIECE];
                    let mut off = 0usize;
                    let mut np = 0usize;
                    let mut f = $pieces;
                    while off < LENB {
                        // piece lengths vary (including an empty piece now and then)
                        let n = match np % 5 {
                            0 => PIECE,
                            1 => 0,
                            2 => PIECE - 13,
                            3 => 1,
                            _ => PIECE / 2 + 3,
                        }
                        .min(LENB - off);
                        for (k, b) in piece[..n].iter_mut().enumerate() {
                            *b = pat(off + k);
                        }
                        f(&mut piece[..n]);
                        if piece[..n] != buf[off..off + n] {
                            let i = piece[..n].iter().zip(&buf[off..off + n]).position(|(a, b)| a != b).unwrap();
                            return Err(format!("the whole-string call and the same string in pieces differ at byte {}", off + i));
                        }
                        off += n;
                        np += 1;
                    }
                    Ok(())
                });
                res = match r {
                    Err(p) => Err(format!("feeding pieces panicked: {}", p.0)),
                    Ok(r) => r,
                };
            }
            if res.is_ok() {
                let r = guard(|| {
                    $inverse(&mut *buf);
                });
                res = match r {
                    Err(p) => Err(format!("one-call inverse panicked: {}", p.0)),
                    Ok(()) => match buf.iter().enumerate().position(|(i, &b)| b != pat(i)) {
                        None => Ok(()),
                        Some(i) => Err(format!("one-call inverse of the one-call output differs from the input at byte {}", i)),
                    },
                };
            }
            out.check($name, LENB as u128, t.elapsed().as_secs_f64(), res);
        }};
    }
    let c24 = CheapN::<U24>::new(5);
    let iv24 = Array::<u8, U24>::from([0x3Cu8; 24]);
    let c3 = CheapN::<U3>::new(9);
    let iv3 = Array::<u8, U3>::from([0x11u8, 0x22, 0x33]);
    {
        let mut pe = cfb_mode::BufEncryptor::<CheapN<U24>>::inner_iv_init(c24.clone(), &iv24);
        one!(
            "byte-stream/cfb-buf/bs=24",
            |b: &mut [u8]| cfb_mode::BufEncryptor::<CheapN<U24>>::inner_iv_init(c24.clone(), &iv24).encrypt(b),
            |b: &mut [u8]| pe.encrypt(b),
            |b: &mut [u8]| cfb_mode::BufDecryptor::<CheapN<U24>>::inner_iv_init(c24.clone(), &iv24).decrypt(b)
        );
    }
    if quick {
        return;
    }
    {
        let mut pe = cfb_mode::BufEncryptor::<CheapN<U3>>::inner_iv_init(c3.clone(), &iv3);
        one!(
            "byte-stream/cfb-buf/bs=3",
            |b: &mut [u8]| cfb_mode::BufEncryptor::<CheapN<U3>>::inner_iv_init(c3.clone(), &iv3).encrypt(b),
            |b: &mut [u8]| pe.encrypt(b),
            |b: &mut [u8]| cfb_mode::BufDecryptor::<CheapN<U3>>::inner_iv_init(c3.clone(), &iv3).decrypt(b)
        );
    }
    {
        type C = ctr::Ctr64BE<CheapN<U24>>;
        let mk = || C::from_core(ctr::CtrCore::<CheapN<U24>, ctr::flavors::Ctr64BE>::inner_iv_init(c24.clone(), &iv24));
        let mut pe = mk();
        one!("byte-stream/ctr64be/bs=24", |b: &mut [u8]| mk().apply_keystream(b), |b: &mut [u8]| pe.apply_keystream(b), |b: &mut [u8]| mk().apply_keystream(b));
    }
}

// ---------------------------------------------------------------- self-test + entry

fn self_test() -> Result<(), String> {
    let c = Cheap16::new(7, 9);
    for x in [0u128, 1, u128::MAX, 0x1234_5678_9ABC_DEF0_0FED_CBA9_8765_4321] {
        if c.d(c.e(x)) != x {
            return Err("Cheap16 is not a bijection".into());
        }
    }
    let c1 = Cheap1::new(0x3D, 0xC6);
    for x in 0..=255u8 {
        if c1.d(c1.e(x)) != x {
            return Err("Cheap1 is not a bijection".into());
        }
    }
    let c24 = CheapN::<U24>::new(5);
    for s in 0..64u8 {
        let x: Vec<u8> = (0..24u8).map(|i| i.wrapping_mul(s).wrapping_add(s ^ 0x5F)).collect();
        let mut y = x.clone();
        c24.eb(&mut y);
        if y == x {
            return Err("CheapN is the identity".into());
        }
        c24.db(&mut y);
        if y != x {
            return Err("CheapN is not a bijection".into());
        }
    }
    Ok(())
}

pub fn run(prop: &str, quick: bool) -> J {
    let t0 = Instant::now();
    let mut out = Out { checks: Vec::new(), viols: Vec::new(), prop: prop.to_string() };
    let mut harness_errors: Vec<J> = Vec::new();
    if let Err(e) = self_test() {
        harness_errors.push(J::s(e));
    } else {
        match prop {
            "C06" => streams(&mut out, &[Flavor::Belt]),
            "C04" => {
                if quick {
                    streams(&mut out, &[Flavor::Ctr128LE])
                } else {
                    streams(&mut out, &[Flavor::Ctr64BE, Flavor::Ctr64LE, Flavor::Ctr128BE, Flavor::Ctr128LE])
                }
            }
            "C10" => streams(&mut out, &[Flavor::Ctr128BE, Flavor::Belt, Flavor::Ctr64LE]),
            "C13" => cts_one_byte(&mut out, if quick { &["cbc_cs3"] } else { &["cbc_cs1", "cbc_cs2", "cbc_cs3", "ecb_cs1", "ecb_cs2", "ecb_cs3"] }, false, false),
            "C05" => cts_one_byte(&mut out, &["cbc_cs1", "cbc_cs2", "cbc_cs3", "ecb_cs3"], true, false),
            "C01" => cts_one_byte(&mut out, &["cbc_cs3", "ecb_cs2"], false, true),
            "C08" | "C14" => {
                let mut buf = vec![0u8; LENB];
                byte_streams(&mut out, &mut buf, quick);
            }
            _ => {}
        }
    }
    J::obj()
        .set("property", J::s(prop))
        .set("slice", J::s("blocks32 (2^32+21 keystream blocks per backend call; 2^32+2 one-byte blocks per CTS message)"))
        .set("checks", J::Arr(out.checks))
        .set("violations", J::Arr(out.viols))
        .set("harness_errors", J::Arr(harness_errors))
        .set("wall_s", J::Num(t0.elapsed().as_secs_f64()))
}
