//! Uniform object-safe adapters over every public mode type, so that generators and
//! monitors are written (and compiled) once. Every adapter method maps 1:1 onto a public
//! API call of the type under test; nothing is re-implemented here.

use crate::spy::RefCipher;
use cipher::{
    AlgorithmName, Array, AsyncStreamCipher, Block, BlockModeDecrypt, BlockModeEncrypt,
    BlockSizeUser, InOutBuf, InnerIvInit, Iv, IvState, Key, KeyInit, KeyIvInit, KeySizeUser,
    StreamCipher, StreamCipherCore, StreamCipherCoreWrapper, StreamCipherSeek,
    StreamCipherSeekCore,
    block_padding::{AnsiX923, Iso7816, NoPadding, Padding, Pkcs7, ZeroPadding},
    crypto_common::InnerUser,
    inout::InOutBufReserved,
    typenum::Unsigned,
};
use core::fmt;
use core::marker::PhantomData;
use std::alloc::{Layout, alloc_zeroed, dealloc};
use std::any::Any;

// ------------------------------------------------------------------ enums

#[derive(Clone, Copy, Debug, PartialEq, Eq, Hash, PartialOrd, Ord)]
pub enum Family {
    Cbc,
    Pcbc,
    Ige,
    Cfb,
    Cfb8,
    OfbBlk,
}
impl Family {
    pub fn name(self) -> &'static str {
        match self {
            Family::Cbc => "cbc",
            Family::Pcbc => "pcbc",
            Family::Ige => "ige",
            Family::Cfb => "cfb",
            Family::Cfb8 => "cfb8",
            Family::OfbBlk => "ofb",
        }
    }
}

#[derive(Clone, Copy, Debug, PartialEq, Eq, Hash, PartialOrd, Ord)]
pub enum Direction {
    Enc,
    Dec,
}
impl Direction {
    pub fn name(self) -> &'static str {
        match self {
            Direction::Enc => "enc",
            Direction::Dec => "dec",
        }
    }
}

/// How a piece of `k` blocks is handed to a block-mode object.
#[derive(Clone, Copy, Debug, PartialEq, Eq, Hash, PartialOrd, Ord)]
pub enum BKind {
    /// `*_block(&mut b)` once per block
    BlockIp,
    /// `*_block_inout((&in, &mut out).into())` once per block
    BlockInout,
    /// `*_block_b2b(&in, &mut out)` once per block
    BlockB2b,
    /// `*_blocks(&mut [b])`
    BlocksIp,
    /// `*_blocks_inout(InOutBuf::from(&mut [b]))`
    BlocksInoutIp,
    /// `*_blocks_inout(InOutBuf::new(in, out))`
    BlocksInoutB2b,
    /// `*_blocks_b2b(in, out)`
    BlocksB2b,
    /// the caller's own closure handed to `*_with_backend`, calling the mode backend's
    /// `*_par_blocks_inplace` / `*_tail_blocks_inplace` / `*_block_inplace` on its own buffer
    BackendIp,
    /// ... calling `*_par_blocks` / `*_tail_blocks` / `*_block` with separate in/out buffers
    BackendInout,
    /// method-call syntax on the *concrete* mode type, `m.encrypt_block(&mut b)` per block: an
    /// inherent method of that name (a "fast path" added to the type) takes precedence over the
    /// trait's, which generic code can never see. Falls back to the trait call for types that
    /// the instantiation crates did not register (`conc_enc!` / `conc_dec!`).
    ConcBlock,
    /// ... `m.encrypt_blocks(&mut [b])`
    ConcBlocks,
    /// ... `m.encrypt_blocks_b2b(in, out)`
    ConcBlocksB2b,
}
pub const ALL_BKINDS: [BKind; 12] = [
    BKind::BlockIp,
    BKind::BlockInout,
    BKind::BlockB2b,
    BKind::BlocksIp,
    BKind::BlocksInoutIp,
    BKind::BlocksInoutB2b,
    BKind::BlocksB2b,
    BKind::BackendIp,
    BKind::BackendInout,
    BKind::ConcBlock,
    BKind::ConcBlocks,
    BKind::ConcBlocksB2b,
];
impl BKind {
    pub fn is_b2b(self) -> bool {
        matches!(self, BKind::BlockInout | BKind::BlockB2b | BKind::BlocksInoutB2b | BKind::BlocksB2b | BKind::BackendInout | BKind::ConcBlocksB2b)
    }
    pub fn is_multi(self) -> bool {
        matches!(
            self,
            BKind::BlocksIp | BKind::BlocksInoutIp | BKind::BlocksInoutB2b | BKind::BlocksB2b | BKind::BackendIp | BKind::BackendInout | BKind::ConcBlocks | BKind::ConcBlocksB2b
        )
    }
    /// the in-place twin / b2b twin of a kind
    pub fn twin(self) -> BKind {
        match self {
            BKind::BlockIp => BKind::BlockB2b,
            BKind::BlockInout => BKind::BlockIp,
            BKind::BlockB2b => BKind::BlockIp,
            BKind::BlocksIp => BKind::BlocksB2b,
            BKind::BlocksInoutIp => BKind::BlocksInoutB2b,
            BKind::BlocksInoutB2b => BKind::BlocksInoutIp,
            BKind::BlocksB2b => BKind::BlocksIp,
            BKind::BackendIp => BKind::BackendInout,
            BKind::BackendInout => BKind::BackendIp,
            BKind::ConcBlock => BKind::BlockB2b,
            BKind::ConcBlocks => BKind::ConcBlocksB2b,
            BKind::ConcBlocksB2b => BKind::ConcBlocks,
        }
    }
    pub fn name(self) -> &'static str {
        match self {
            BKind::BlockIp => "block",
            BKind::BlockInout => "block_inout",
            BKind::BlockB2b => "block_b2b",
            BKind::BlocksIp => "blocks",
            BKind::BlocksInoutIp => "blocks_inout(ip)",
            BKind::BlocksInoutB2b => "blocks_inout(b2b)",
            BKind::BlocksB2b => "blocks_b2b",
            BKind::BackendIp => "with_backend(inplace methods)",
            BKind::BackendInout => "with_backend(inout methods)",
            BKind::ConcBlock => "concrete.block",
            BKind::ConcBlocks => "concrete.blocks",
            BKind::ConcBlocksB2b => "concrete.blocks_b2b",
        }
    }
}

#[derive(Clone, Copy, Debug, PartialEq, Eq, Hash, PartialOrd, Ord)]
pub enum Pad {
    Pkcs7,
    Iso7816,
    AnsiX923,
    NoPadding,
    Zero,
}
pub const ALL_PADS: [Pad; 5] = [Pad::Pkcs7, Pad::Iso7816, Pad::AnsiX923, Pad::NoPadding, Pad::Zero];
impl Pad {
    pub fn name(self) -> &'static str {
        match self {
            Pad::Pkcs7 => "Pkcs7",
            Pad::Iso7816 => "Iso7816",
            Pad::AnsiX923 => "AnsiX923",
            Pad::NoPadding => "NoPadding",
            Pad::Zero => "ZeroPadding",
        }
    }
}

/// Form of a padded / one-shot / byte-stream call.
#[derive(Clone, Copy, Debug, PartialEq, Eq, Hash, PartialOrd, Ord)]
pub enum Form {
    InPlace,
    B2b,
    Inout,
    Vec,
}
pub const FORMS4: [Form; 4] = [Form::InPlace, Form::B2b, Form::Inout, Form::Vec];
pub const FORMS3: [Form; 3] = [Form::InPlace, Form::B2b, Form::Inout];
impl Form {
    pub fn name(self) -> &'static str {
        match self {
            Form::InPlace => "inplace",
            Form::B2b => "b2b",
            Form::Inout => "inout",
            Form::Vec => "vec",
        }
    }
}

#[derive(Clone, Copy, Debug, PartialEq, Eq, Hash, PartialOrd, Ord)]
pub enum Ctor {
    /// `T::new(&key, &iv)` (KeyIvInit / KeyInit)
    New,
    /// `T::new_from_slices(key, iv)` / `new_from_slice(key)`
    Slices,
    /// `T::inner_iv_init(C::new(&key), &iv)` / `inner_init`
    Inner,
    /// `T::inner_iv_slice_init(C::new(&key), iv)`
    InnerSlice,
}
pub const ALL_CTORS: [Ctor; 4] = [Ctor::New, Ctor::Slices, Ctor::Inner, Ctor::InnerSlice];

#[derive(Clone, Copy, Debug, PartialEq, Eq, Hash, PartialOrd, Ord)]
pub enum SeekTy {
    I32,
    U32,
    U64,
    U128,
    Usize,
}
pub const ALL_SEEKTY: [SeekTy; 5] = [SeekTy::I32, SeekTy::U32, SeekTy::U64, SeekTy::U128, SeekTy::Usize];
impl SeekTy {
    pub fn max_val(self) -> u128 {
        match self {
            SeekTy::I32 => i32::MAX as u128,
            SeekTy::U32 => u32::MAX as u128,
            SeekTy::U64 => u64::MAX as u128,
            SeekTy::U128 => u128::MAX,
            SeekTy::Usize => usize::MAX as u128,
        }
    }
    pub fn name(self) -> &'static str {
        match self {
            SeekTy::I32 => "i32",
            SeekTy::U32 => "u32",
            SeekTy::U64 => "u64",
            SeekTy::U128 => "u128",
            SeekTy::Usize => "usize",
        }
    }
}

#[derive(Clone, Copy, Debug, PartialEq, Eq, Hash, PartialOrd, Ord)]
pub enum Flavor {
    Ctr32BE,
    Ctr32LE,
    Ctr64BE,
    Ctr64LE,
    Ctr128BE,
    Ctr128LE,
    Ofb,
    Belt,
}
impl Flavor {
    pub fn name(self) -> &'static str {
        match self {
            Flavor::Ctr32BE => "ctr32be",
            Flavor::Ctr32LE => "ctr32le",
            Flavor::Ctr64BE => "ctr64be",
            Flavor::Ctr64LE => "ctr64le",
            Flavor::Ctr128BE => "ctr128be",
            Flavor::Ctr128LE => "ctr128le",
            Flavor::Ofb => "ofb",
            Flavor::Belt => "beltctr",
        }
    }
    /// counter width in bits (None: no counter)
    pub fn bits(self) -> Option<u32> {
        match self {
            Flavor::Ctr32BE | Flavor::Ctr32LE => Some(32),
            Flavor::Ctr64BE | Flavor::Ctr64LE => Some(64),
            Flavor::Ctr128BE | Flavor::Ctr128LE | Flavor::Belt => Some(128),
            Flavor::Ofb => None,
        }
    }
    pub fn is_ctr(self) -> bool {
        !matches!(self, Flavor::Ofb | Flavor::Belt)
    }
    pub fn big_endian(self) -> bool {
        matches!(self, Flavor::Ctr32BE | Flavor::Ctr64BE | Flavor::Ctr128BE)
    }
    pub fn seekable(self) -> bool {
        self != Flavor::Ofb
    }
}

#[derive(Clone, Copy, Debug, PartialEq, Eq, Hash, PartialOrd, Ord)]
pub enum CtsVar {
    CbcCs1,
    CbcCs2,
    CbcCs3,
    EcbCs1,
    EcbCs2,
    EcbCs3,
}
impl CtsVar {
    pub fn name(self) -> &'static str {
        match self {
            CtsVar::CbcCs1 => "cbc_cs1",
            CtsVar::CbcCs2 => "cbc_cs2",
            CtsVar::CbcCs3 => "cbc_cs3",
            CtsVar::EcbCs1 => "ecb_cs1",
            CtsVar::EcbCs2 => "ecb_cs2",
            CtsVar::EcbCs3 => "ecb_cs3",
        }
    }
    pub fn is_cbc(self) -> bool {
        matches!(self, CtsVar::CbcCs1 | CtsVar::CbcCs2 | CtsVar::CbcCs3)
    }
    pub fn cs(self) -> u8 {
        match self {
            CtsVar::CbcCs1 | CtsVar::EcbCs1 => 1,
            CtsVar::CbcCs2 | CtsVar::EcbCs2 => 2,
            CtsVar::CbcCs3 | CtsVar::EcbCs3 => 3,
        }
    }
}

// ------------------------------------------------------------------ helpers

struct AlgName<T>(PhantomData<T>);
impl<T: AlgorithmName> fmt::Display for AlgName<T> {
    fn fmt(&self, f: &mut fmt::Formatter<'_>) -> fmt::Result {
        T::write_alg_name(f)
    }
}
pub fn alg_name<T: AlgorithmName>() -> String {
    format!("{}", AlgName::<T>(PhantomData))
}

/// Box whose storage was zero-filled before the value was written into it (so bytes of
/// the allocation that the value does not cover are zero; matters for C17's scan).
pub fn zbox<T>(v: T) -> Box<T> {
    let layout = Layout::new::<T>();
    if layout.size() == 0 {
        return Box::new(v);
    }
    // SAFETY: layout has non-zero size; pointer is checked; value is written before use.
    unsafe {
        let p = alloc_zeroed(layout) as *mut T;
        assert!(!p.is_null());
        p.write(v);
        Box::from_raw(p)
    }
}

/// Bytes of the heap storage of `b` right before and right after dropping the value in
/// place (the storage itself is released only after the second read).
pub struct DropScan {
    pub before: Vec<u8>,
    pub after: Vec<u8>,
}

thread_local! {
    /// how the next `drop_scan` observes the storage: false = read it between `drop_in_place` and
    /// `dealloc`; true = let the ordinary `drop(Box<T>)` run and photograph the block inside the
    /// allocator's `dealloc` (the optimiser is then free to delete any non-volatile store that
    /// only "wipes" memory about to be freed, which is what a release build really does)
    static DROP_FREED: core::cell::Cell<bool> = const { core::cell::Cell::new(false) };
}
pub fn set_drop_scan_freed(on: bool) {
    DROP_FREED.with(|c| c.set(on));
}

pub fn drop_scan_box<T>(b: Box<T>) -> DropScan {
    let layout = Layout::new::<T>();
    let raw = Box::into_raw(b);
    let n = layout.size();
    let rd = |p: *const u8| -> Vec<u8> {
        // SAFETY (native only): p..p+n is the live allocation of the Box; volatile reads of
        // possibly-uninitialised padding are what this monitor is for. Never run under Miri.
        (0..n).map(|i| unsafe { core::ptr::read_volatile(p.add(i)) }).collect()
    };
    let before = rd(raw as *const u8);
    if n != 0 && DROP_FREED.with(|c| c.get()) {
        crate::alloc_spy::arm(raw as usize, n);
        // SAFETY: raw came from Box::into_raw; this is the one and only drop + release
        drop(unsafe { Box::from_raw(raw) });
        if let Some(after) = crate::alloc_spy::take() {
            if after.len() == n {
                return DropScan { before, after };
            }
        }
        // (an object larger than the snapshot buffer: fall back to "all wiped" = no verdict)
        return DropScan { before, after: vec![0u8; n] };
    }
    // SAFETY: raw came from Box::into_raw and is dropped exactly once; storage freed below.
    unsafe { core::ptr::drop_in_place(raw) };
    let after = rd(raw as *const u8);
    if n != 0 {
        unsafe { dealloc(raw as *mut u8, layout) };
    }
    DropScan { before, after }
}

/// XOR `mask` into the raw storage of `*this` at byte offset `off` (liveness probe of C17:
/// does flipping these bytes change what the object does?). Native builds only.
pub fn poke_raw<T>(this: &mut T, off: usize, mask: &[u8]) {
    let n = core::mem::size_of::<T>();
    assert!(off + mask.len() <= n, "harness: poke outside the object");
    let p = this as *mut T as *mut u8;
    for (i, m) in mask.iter().enumerate() {
        // SAFETY: inside the object's own allocation; only called on plain-data secret bytes
        unsafe {
            let q = p.add(off + i);
            core::ptr::write_volatile(q, core::ptr::read_volatile(q) ^ m);
        }
    }
}

fn chunks<N: cipher::array::ArraySize>(b: &[u8]) -> &[Array<u8, N>] {
    let (c, r) = Array::<u8, N>::slice_as_chunks(b);
    assert!(r.is_empty(), "harness: piece is not a whole number of blocks");
    c
}
fn chunks_mut<N: cipher::array::ArraySize>(b: &mut [u8]) -> &mut [Array<u8, N>] {
    let (c, r) = Array::<u8, N>::slice_as_chunks_mut(b);
    assert!(r.is_empty(), "harness: piece is not a whole number of blocks");
    c
}

fn key_of<T: KeySizeUser>(k: &[u8]) -> Key<T> {
    Key::<T>::try_from(k).expect("harness: key length")
}

// ------------------------------------------------------------------ clone-if-Clone registry
//
// Whether a public type is `Clone` is a compile-time fact that generic code cannot ask about.
// The instantiation crates (concrete types) probe it with autoref dispatch (`clone_probe!`) and
// register the result here, so that a type that *becomes* Clone (BeltCtrCore is the only mode
// type that is not) is picked up by the C16 monitors without any change to the harness.

use std::any::TypeId;
use std::collections::HashMap;
use std::sync::{Mutex, OnceLock};

/// a function pointer kept as a raw pointer (not as an integer: that would strip its provenance,
/// which Miri rightly refuses to call through)
#[derive(Clone, Copy)]
pub struct FnPtr(*const ());
// SAFETY: function pointers are plain addresses of immutable code
unsafe impl Send for FnPtr {}
unsafe impl Sync for FnPtr {}
impl FnPtr {
    const NULL: FnPtr = FnPtr(core::ptr::null());
    fn is_null(self) -> bool {
        self.0.is_null()
    }
}

static CLONE_REG: OnceLock<Mutex<HashMap<TypeId, (FnPtr, FnPtr)>>> = OnceLock::new();

pub fn register_clone<T: 'static>(clone: Option<fn(&T) -> T>, clone_from: Option<fn(&mut T, &T)>) {
    let m = CLONE_REG.get_or_init(|| Mutex::new(HashMap::new()));
    m.lock().unwrap().insert(TypeId::of::<T>(), (clone.map(|f| FnPtr(f as *const ())).unwrap_or(FnPtr::NULL), clone_from.map(|f| FnPtr(f as *const ())).unwrap_or(FnPtr::NULL)));
}
pub fn lookup_clone<T: 'static>() -> (Option<fn(&T) -> T>, Option<fn(&mut T, &T)>) {
    let Some(m) = CLONE_REG.get() else { return (None, None) };
    match m.lock().unwrap().get(&TypeId::of::<T>()) {
        // SAFETY: the pointers were produced from fn pointers of exactly these types for
        // exactly this T (keyed by TypeId) in `register_clone`
        Some(&(c, cf)) => unsafe {
            (
                if c.is_null() { None } else { Some(core::mem::transmute::<*const (), fn(&T) -> T>(c.0)) },
                if cf.is_null() { None } else { Some(core::mem::transmute::<*const (), fn(&mut T, &T)>(cf.0)) },
            )
        },
        None => (None, None),
    }
}

/// method-call-syntax entry points of a concrete block-mode type (see `BKind::ConcBlock`)
pub struct ConcBlkFns<M: BlockSizeUser> {
    pub block: fn(&mut M, &mut Block<M>),
    pub blocks: fn(&mut M, &mut [Block<M>]),
    pub blocks_b2b: fn(&mut M, &[Block<M>], &mut [Block<M>]) -> bool,
}
impl<M: BlockSizeUser> Clone for ConcBlkFns<M> {
    fn clone(&self) -> Self {
        *self
    }
}
impl<M: BlockSizeUser> Copy for ConcBlkFns<M> {}
/// ... of a concrete keystream core type
pub struct ConcCoreFns<T: BlockSizeUser> {
    pub apply_blocks: fn(&mut T, &mut [Block<T>]),
    pub write_blocks: fn(&mut T, &mut [Block<T>]),
}
impl<T: BlockSizeUser> Clone for ConcCoreFns<T> {
    fn clone(&self) -> Self {
        *self
    }
}
impl<T: BlockSizeUser> Copy for ConcCoreFns<T> {}

static CONC_REG: OnceLock<std::sync::RwLock<HashMap<TypeId, [FnPtr; 3]>>> = OnceLock::new();
fn conc_reg() -> &'static std::sync::RwLock<HashMap<TypeId, [FnPtr; 3]>> {
    CONC_REG.get_or_init(|| std::sync::RwLock::new(HashMap::new()))
}
pub fn register_conc_blk<M: BlockSizeUser + 'static>(f: ConcBlkFns<M>) {
    conc_reg().write().unwrap().insert(TypeId::of::<M>(), [FnPtr(f.block as *const ()), FnPtr(f.blocks as *const ()), FnPtr(f.blocks_b2b as *const ())]);
}
pub fn lookup_conc_blk<M: BlockSizeUser + 'static>() -> Option<ConcBlkFns<M>> {
    let v = *conc_reg().read().unwrap().get(&TypeId::of::<M>())?;
    // SAFETY: the values were produced from fn pointers of exactly these types for exactly this M
    // (keyed by TypeId) in `register_conc_blk`
    Some(unsafe {
        ConcBlkFns {
            block: core::mem::transmute::<*const (), fn(&mut M, &mut Block<M>)>(v[0].0),
            blocks: core::mem::transmute::<*const (), fn(&mut M, &mut [Block<M>])>(v[1].0),
            blocks_b2b: core::mem::transmute::<*const (), fn(&mut M, &[Block<M>], &mut [Block<M>]) -> bool>(v[2].0),
        }
    })
}
// (a separate map: `ofb::OfbCore` is both a block mode and a keystream core)
static CONC_CORE_REG: OnceLock<std::sync::RwLock<HashMap<TypeId, [FnPtr; 3]>>> = OnceLock::new();
fn conc_core_reg() -> &'static std::sync::RwLock<HashMap<TypeId, [FnPtr; 3]>> {
    CONC_CORE_REG.get_or_init(|| std::sync::RwLock::new(HashMap::new()))
}
pub fn register_conc_core<T: BlockSizeUser + 'static>(f: ConcCoreFns<T>) {
    conc_core_reg().write().unwrap().insert(TypeId::of::<T>(), [FnPtr(f.apply_blocks as *const ()), FnPtr(f.write_blocks as *const ()), FnPtr::NULL]);
}
pub fn lookup_conc_core<T: BlockSizeUser + 'static>() -> Option<ConcCoreFns<T>> {
    let v = *conc_core_reg().read().unwrap().get(&TypeId::of::<T>())?;
    // SAFETY: as above, for `register_conc_core`
    Some(unsafe {
        ConcCoreFns {
            apply_blocks: core::mem::transmute::<*const (), fn(&mut T, &mut [Block<T>])>(v[0].0),
            write_blocks: core::mem::transmute::<*const (), fn(&mut T, &mut [Block<T>])>(v[1].0),
        }
    })
}
pub fn conc_registered() -> usize {
    conc_reg().read().unwrap().len() + conc_core_reg().read().unwrap().len()
}

/// `conc_enc!(Type)` / `conc_dec!(Type)` / `conc_core!(Type)`: must be expanded where `Type` is concrete
#[macro_export]
macro_rules! conc_enc {
    ($t:ty) => {{
        #[allow(unused_imports)]
        use $crate::re::cipher::BlockModeEncrypt;
        $crate::subj::register_conc_blk::<$t>($crate::subj::ConcBlkFns {
            block: |m: &mut $t, b| m.encrypt_block(b),
            blocks: |m: &mut $t, bs| m.encrypt_blocks(bs),
            blocks_b2b: |m: &mut $t, i, o| m.encrypt_blocks_b2b(i, o).is_ok(),
        });
    }};
}
#[macro_export]
macro_rules! conc_dec {
    ($t:ty) => {{
        #[allow(unused_imports)]
        use $crate::re::cipher::BlockModeDecrypt;
        $crate::subj::register_conc_blk::<$t>($crate::subj::ConcBlkFns {
            block: |m: &mut $t, b| m.decrypt_block(b),
            blocks: |m: &mut $t, bs| m.decrypt_blocks(bs),
            blocks_b2b: |m: &mut $t, i, o| m.decrypt_blocks_b2b(i, o).is_ok(),
        });
    }};
}
#[macro_export]
macro_rules! conc_core {
    ($t:ty) => {{
        #[allow(unused_imports)]
        use $crate::re::cipher::StreamCipherCore;
        $crate::subj::register_conc_core::<$t>($crate::subj::ConcCoreFns {
            apply_blocks: |c: &mut $t, bs| c.apply_keystream_blocks(bs),
            write_blocks: |c: &mut $t, bs| c.write_keystream_blocks(bs),
        });
    }};
}

pub struct CloneProbe<T>(pub PhantomData<T>);
pub trait ProbeViaClone<T> {
    fn fns(&self) -> (Option<fn(&T) -> T>, Option<fn(&mut T, &T)>);
}
impl<T: Clone> ProbeViaClone<T> for CloneProbe<T> {
    fn fns(&self) -> (Option<fn(&T) -> T>, Option<fn(&mut T, &T)>) {
        (Some(|x| x.clone()), Some(|d, s| d.clone_from(s)))
    }
}
pub trait ProbeNoClone<T> {
    fn fns(&self) -> (Option<fn(&T) -> T>, Option<fn(&mut T, &T)>);
}
impl<T> ProbeNoClone<T> for &CloneProbe<T> {
    fn fns(&self) -> (Option<fn(&T) -> T>, Option<fn(&mut T, &T)>) {
        (None, None)
    }
}

/// `clone_probe!(Type)`: registers `Type`'s Clone / clone_from if (and only if) it is Clone.
/// Must be expanded where `Type` is concrete.
#[macro_export]
macro_rules! clone_probe {
    ($t:ty) => {{
        #[allow(unused_imports)]
        use $crate::subj::{ProbeNoClone, ProbeViaClone};
        let (c, cf) = (&$crate::subj::CloneProbe::<$t>(core::marker::PhantomData)).fns();
        $crate::subj::register_clone::<$t>(c, cf);
    }};
}

// ------------------------------------------------------------------ caller-side backend closures

use cipher::{
    BlockModeDecBackend, BlockModeDecClosure, BlockModeEncBackend, BlockModeEncClosure, StreamCipherBackend, StreamCipherClosure,
    crypto_common::BlockSizes,
};

/// What a downstream user may write: a closure that drives the *mode backend* directly, in
/// any legal order of its methods. `order`:
///   0 = full batches, then `*_tail_blocks` (always, also when empty) -- what `cipher` does
///   1 = full batches, `*_tail_blocks` only when the tail is non-empty
///   2 = full batches, then the single-block method for the rest
///   3 = the single-block method for everything
///   4 = one single block first, then full batches, then single blocks
struct UserClosure<'a, BS: BlockSizes> {
    inp: &'a [Array<u8, BS>],
    out: &'a mut [Array<u8, BS>],
    inplace: bool,
    order: u8,
}
impl<BS: BlockSizes> BlockSizeUser for UserClosure<'_, BS> {
    type BlockSize = BS;
}

macro_rules! user_closure_body {
    ($self:ident, $backend:ident, $B:ident, $blk_ip:ident, $par_ip:ident, $tail_ip:ident, $blk:ident, $par:ident, $tail:ident) => {{
        let w = $B::ParBlocksSize::USIZE;
        let order = if w == 1 { 3 } else { $self.order };
        if $self.inplace {
            let mut rest: &mut [Array<u8, BS>] = $self.out;
            if order == 3 {
                for b in rest.iter_mut() {
                    $backend.$blk_ip(b);
                }
                return;
            }
            if order == 4 && !rest.is_empty() {
                let (first, r) = rest.split_at_mut(1);
                $backend.$blk_ip(&mut first[0]);
                rest = r;
            }
            let (chunks, tail) = Array::<Array<u8, BS>, $B::ParBlocksSize>::slice_as_chunks_mut(rest);
            for c in chunks {
                $backend.$par_ip(c);
            }
            match order {
                0 => $backend.$tail_ip(tail),
                1 => {
                    if !tail.is_empty() {
                        $backend.$tail_ip(tail)
                    }
                }
                _ => {
                    for b in tail.iter_mut() {
                        $backend.$blk_ip(b);
                    }
                }
            }
        } else {
            let mut buf = InOutBuf::new($self.inp, $self.out).expect("contract: a b2b call with equal-length buffers was rejected");
            if order == 3 {
                for b in buf {
                    $backend.$blk(b);
                }
                return;
            }
            if order == 4 && !buf.is_empty() {
                let (mut first, r) = buf.split_at(1);
                $backend.$blk(first.get(0));
                buf = r;
            }
            let (chunks, tail) = buf.into_chunks::<$B::ParBlocksSize>();
            for c in chunks {
                $backend.$par(c);
            }
            match order {
                0 => $backend.$tail(tail),
                1 => {
                    if !tail.is_empty() {
                        $backend.$tail(tail)
                    }
                }
                _ => {
                    for b in tail {
                        $backend.$blk(b);
                    }
                }
            }
        }
    }};
}

impl<BS: BlockSizes> BlockModeEncClosure for UserClosure<'_, BS> {
    fn call<B: BlockModeEncBackend<BlockSize = BS>>(self, backend: &mut B) {
        user_closure_body!(self, backend, B, encrypt_block_inplace, encrypt_par_blocks_inplace, encrypt_tail_blocks_inplace, encrypt_block, encrypt_par_blocks, encrypt_tail_blocks)
    }
}
impl<BS: BlockSizes> BlockModeDecClosure for UserClosure<'_, BS> {
    fn call<B: BlockModeDecBackend<BlockSize = BS>>(self, backend: &mut B) {
        user_closure_body!(self, backend, B, decrypt_block_inplace, decrypt_par_blocks_inplace, decrypt_tail_blocks_inplace, decrypt_block, decrypt_par_blocks, decrypt_tail_blocks)
    }
}

/// keystream straight from the stream backend: `gen_par_ks_blocks` / `gen_tail_blocks` /
/// `gen_ks_block`, in any legal order (`order` as for `UserClosure`)
struct UserKsClosure<'a, BS: BlockSizes> {
    out: &'a mut [Array<u8, BS>],
    order: u8,
}
impl<BS: BlockSizes> BlockSizeUser for UserKsClosure<'_, BS> {
    type BlockSize = BS;
}
impl<BS: BlockSizes> StreamCipherClosure for UserKsClosure<'_, BS> {
    fn call<B: StreamCipherBackend<BlockSize = BS>>(self, backend: &mut B) {
        let w = B::ParBlocksSize::USIZE;
        let order = if w == 1 { 3 } else { self.order };
        let mut rest: &mut [Array<u8, BS>] = self.out;
        if order == 3 {
            for b in rest.iter_mut() {
                backend.gen_ks_block(b);
            }
            return;
        }
        if order == 4 && !rest.is_empty() {
            let (first, r) = rest.split_at_mut(1);
            backend.gen_ks_block(&mut first[0]);
            rest = r;
        }
        let (chunks, tail) = Array::<Array<u8, BS>, B::ParBlocksSize>::slice_as_chunks_mut(rest);
        for c in chunks {
            backend.gen_par_ks_blocks(c);
        }
        match order {
            0 => backend.gen_tail_blocks(tail),
            1 => {
                if !tail.is_empty() {
                    backend.gen_tail_blocks(tail)
                }
            }
            _ => {
                for b in tail.iter_mut() {
                    backend.gen_ks_block(b);
                }
            }
        }
    }
}

/// deterministic choice of a backend-call order from the data of the call
fn order_of(data: &[u8]) -> u8 {
    let h = data.iter().take(8).fold(data.len() as u32, |a, b| a.wrapping_mul(31).wrapping_add(*b as u32));
    (h % 5) as u8
}

// ------------------------------------------------------------------ block-mode objects

pub trait BlkObj: Send {
    /// block size of the *mode* (1 for CFB-8)
    fn bs(&self) -> usize;
    /// `inp.len() == out.len()`, multiple of `bs()`. In-place kinds copy `inp` into `out`
    /// first and then operate on `out` alone.
    fn call(&mut self, kind: BKind, inp: &[u8], out: &mut [u8]);
    /// `*_blocks_b2b(in, out)` with possibly different block counts. true = Ok
    fn blocks_b2b_raw(&mut self, inp: &[u8], out: &mut [u8]) -> bool;
    fn iv_state(&self) -> Option<Vec<u8>>;
    fn clone_box(&self) -> Box<dyn BlkObj>;
    fn debug(&self) -> String;
    fn debug_alt(&self) -> String;
    fn alg_name(&self) -> String;
    /// Consuming padded operation. `out` is the caller-provided output storage (for the
    /// in-place form it is the buffer itself and receives `msg` first). Ok(returned slice).
    fn padded(self: Box<Self>, pad: Pad, form: Form, msg: &[u8], out: &mut [u8]) -> Result<Vec<u8>, ()>;
    /// `AsyncStreamCipher` one-shot; None = the type does not offer it. Some(false) = Err.
    fn oneshot(self: Box<Self>, form: Form, inp: &[u8], out: &mut [u8]) -> Option<bool>;
    fn drop_scan(self: Box<Self>) -> DropScan;
    fn poke(&mut self, off: usize, mask: &[u8]);
    fn as_any(&self) -> &dyn Any;
    /// `Clone::clone_from(self, src)`; false = `src` is another type or the type is not Clone
    fn clone_from_obj(&mut self, src: &dyn BlkObj) -> bool;
}

pub struct EncAd<M> {
    m: M,
    ivf: Option<fn(&M) -> Vec<u8>>,
    osf: Option<fn(M, Form, &[u8], &mut [u8]) -> bool>,
}
pub struct DecAd<M> {
    m: M,
    ivf: Option<fn(&M) -> Vec<u8>>,
    osf: Option<fn(M, Form, &[u8], &mut [u8]) -> bool>,
}

fn ivf_of<M: IvState>(m: &M) -> Vec<u8> {
    m.iv_state().to_vec()
}

fn os_enc<M: AsyncStreamCipher + BlockModeEncrypt>(m: M, form: Form, inp: &[u8], out: &mut [u8]) -> bool {
    match form {
        Form::InPlace => {
            out.copy_from_slice(inp);
            m.encrypt(out);
            true
        }
        Form::B2b => m.encrypt_b2b(inp, out).is_ok(),
        Form::Inout => match InOutBuf::new(inp, out) {
            Ok(b) => {
                m.encrypt_inout(b);
                true
            }
            Err(_) => false,
        },
        Form::Vec => unreachable!(),
    }
}
fn os_dec<M: AsyncStreamCipher + BlockModeDecrypt>(m: M, form: Form, inp: &[u8], out: &mut [u8]) -> bool {
    match form {
        Form::InPlace => {
            out.copy_from_slice(inp);
            m.decrypt(out);
            true
        }
        Form::B2b => m.decrypt_b2b(inp, out).is_ok(),
        Form::Inout => match InOutBuf::new(inp, out) {
            Ok(b) => {
                m.decrypt_inout(b);
                true
            }
            Err(_) => false,
        },
        Form::Vec => unreachable!(),
    }
}

fn enc_padded<M: BlockModeEncrypt, P: Padding<M::BlockSize>>(
    m: M,
    form: Form,
    msg: &[u8],
    out: &mut [u8],
) -> Result<Vec<u8>, ()> {
    match form {
        Form::InPlace => {
            let n = msg.len().min(out.len());
            out[..n].copy_from_slice(&msg[..n]);
            let base = out.as_ptr();
            let r = m.encrypt_padded::<P>(out, msg.len()).map_err(|_| ())?;
            assert!(r.as_ptr() == base, "contract: the slice returned by an in-place padded operation does not start at the buffer");
            Ok(r.to_vec())
        }
        Form::B2b => {
            let base = out.as_ptr();
            let r = m.encrypt_padded_b2b::<P>(msg, out).map_err(|_| ())?;
            assert!(r.as_ptr() == base);
            Ok(r.to_vec())
        }
        Form::Inout => {
            let b = InOutBufReserved::from_slices(msg, out).map_err(|_| ())?;
            m.encrypt_padded_inout::<P>(b).map(|r| r.to_vec()).map_err(|_| ())
        }
        Form::Vec => Ok(m.encrypt_padded_vec::<P>(msg)),
    }
}

fn dec_padded<M: BlockModeDecrypt, P: Padding<M::BlockSize>>(
    m: M,
    form: Form,
    ct: &[u8],
    out: &mut [u8],
) -> Result<Vec<u8>, ()> {
    match form {
        Form::InPlace => {
            let n = ct.len();
            assert!(out.len() >= n, "harness: in-place padded decrypt needs |out| >= |ct|");
            out[..n].copy_from_slice(ct);
            m.decrypt_padded::<P>(&mut out[..n]).map(|r| r.to_vec()).map_err(|_| ())
        }
        Form::B2b => m.decrypt_padded_b2b::<P>(ct, out).map(|r| r.to_vec()).map_err(|_| ()),
        Form::Inout => {
            let b = InOutBuf::new(ct, out).map_err(|_| ())?;
            m.decrypt_padded_inout::<P>(b).map(|r| r.to_vec()).map_err(|_| ())
        }
        Form::Vec => m.decrypt_padded_vec::<P>(ct).map_err(|_| ()),
    }
}

impl<M> BlkObj for EncAd<M>
where
    M: BlockModeEncrypt + Clone + fmt::Debug + AlgorithmName + Send + 'static,
{
    fn bs(&self) -> usize {
        M::BlockSize::USIZE
    }
    fn call(&mut self, kind: BKind, inp: &[u8], out: &mut [u8]) {
        assert_eq!(inp.len(), out.len());
        let m = &mut self.m;
        match kind {
            BKind::BlockIp => {
                out.copy_from_slice(inp);
                for b in chunks_mut::<M::BlockSize>(out) {
                    m.encrypt_block(b);
                }
            }
            BKind::BlockInout => {
                for (i, o) in chunks::<M::BlockSize>(inp).iter().zip(chunks_mut::<M::BlockSize>(out)) {
                    m.encrypt_block_inout((i, o).into());
                }
            }
            BKind::BlockB2b => {
                for (i, o) in chunks::<M::BlockSize>(inp).iter().zip(chunks_mut::<M::BlockSize>(out)) {
                    m.encrypt_block_b2b(i, o);
                }
            }
            BKind::BlocksIp => {
                out.copy_from_slice(inp);
                m.encrypt_blocks(chunks_mut::<M::BlockSize>(out));
            }
            BKind::BlocksInoutIp => {
                out.copy_from_slice(inp);
                m.encrypt_blocks_inout(chunks_mut::<M::BlockSize>(out).into());
            }
            BKind::BlocksInoutB2b => {
                let b = InOutBuf::new(chunks::<M::BlockSize>(inp), chunks_mut::<M::BlockSize>(out)).unwrap();
                m.encrypt_blocks_inout(b);
            }
            BKind::BlocksB2b => {
                m.encrypt_blocks_b2b(chunks::<M::BlockSize>(inp), chunks_mut::<M::BlockSize>(out))
                    .expect("contract: a b2b call with equal-length buffers was rejected");
            }
            BKind::BackendIp => {
                out.copy_from_slice(inp);
                let order = order_of(inp);
                m.encrypt_with_backend(UserClosure { inp: &[], out: chunks_mut::<M::BlockSize>(out), inplace: true, order });
            }
            BKind::BackendInout => {
                let order = order_of(inp);
                m.encrypt_with_backend(UserClosure { inp: chunks::<M::BlockSize>(inp), out: chunks_mut::<M::BlockSize>(out), inplace: false, order });
            }
            BKind::ConcBlock => {
                out.copy_from_slice(inp);
                let f = lookup_conc_blk::<M>();
                for b in chunks_mut::<M::BlockSize>(out) {
                    match &f {
                        Some(f) => (f.block)(m, b),
                        None => m.encrypt_block(b),
                    }
                }
            }
            BKind::ConcBlocks => {
                out.copy_from_slice(inp);
                match lookup_conc_blk::<M>() {
                    Some(f) => (f.blocks)(m, chunks_mut::<M::BlockSize>(out)),
                    None => m.encrypt_blocks(chunks_mut::<M::BlockSize>(out)),
                }
            }
            BKind::ConcBlocksB2b => {
                let ok = match lookup_conc_blk::<M>() {
                    Some(f) => (f.blocks_b2b)(m, chunks::<M::BlockSize>(inp), chunks_mut::<M::BlockSize>(out)),
                    None => m.encrypt_blocks_b2b(chunks::<M::BlockSize>(inp), chunks_mut::<M::BlockSize>(out)).is_ok(),
                };
                assert!(ok, "contract: a b2b call with equal-length buffers was rejected");
            }
        }
    }
    fn blocks_b2b_raw(&mut self, inp: &[u8], out: &mut [u8]) -> bool {
        self.m
            .encrypt_blocks_b2b(chunks::<M::BlockSize>(inp), chunks_mut::<M::BlockSize>(out))
            .is_ok()
    }
    fn iv_state(&self) -> Option<Vec<u8>> {
        self.ivf.map(|f| f(&self.m))
    }
    fn clone_box(&self) -> Box<dyn BlkObj> {
        zbox(EncAd {
            m: self.m.clone(),
            ivf: self.ivf,
            osf: self.osf,
        })
    }
    fn debug(&self) -> String {
        format!("{:?}", self.m)
    }
    fn debug_alt(&self) -> String {
        format!("{:#?}", self.m)
    }
    fn alg_name(&self) -> String {
        alg_name::<M>()
    }
    fn padded(self: Box<Self>, pad: Pad, form: Form, msg: &[u8], out: &mut [u8]) -> Result<Vec<u8>, ()> {
        let m = (*self).m;
        match pad {
            Pad::Pkcs7 => enc_padded::<M, Pkcs7>(m, form, msg, out),
            Pad::Iso7816 => enc_padded::<M, Iso7816>(m, form, msg, out),
            Pad::AnsiX923 => enc_padded::<M, AnsiX923>(m, form, msg, out),
            Pad::NoPadding => enc_padded::<M, NoPadding>(m, form, msg, out),
            Pad::Zero => enc_padded::<M, ZeroPadding>(m, form, msg, out),
        }
    }
    fn oneshot(self: Box<Self>, form: Form, inp: &[u8], out: &mut [u8]) -> Option<bool> {
        let f = self.osf?;
        let m = (*self).m;
        Some(f(m, form, inp, out))
    }
    fn drop_scan(self: Box<Self>) -> DropScan {
        drop_scan_box(self)
    }
    fn poke(&mut self, off: usize, mask: &[u8]) {
        poke_raw(self, off, mask)
    }
    fn as_any(&self) -> &dyn Any {
        self
    }
    fn clone_from_obj(&mut self, src: &dyn BlkObj) -> bool {
        match src.as_any().downcast_ref::<Self>() {
            Some(o) => {
                self.m.clone_from(&o.m);
                true
            }
            None => false,
        }
    }
}

impl<M> BlkObj for DecAd<M>
where
    M: BlockModeDecrypt + Clone + fmt::Debug + AlgorithmName + Send + 'static,
{
    fn bs(&self) -> usize {
        M::BlockSize::USIZE
    }
    fn call(&mut self, kind: BKind, inp: &[u8], out: &mut [u8]) {
        assert_eq!(inp.len(), out.len());
        let m = &mut self.m;
        match kind {
            BKind::BlockIp => {
                out.copy_from_slice(inp);
                for b in chunks_mut::<M::BlockSize>(out) {
                    m.decrypt_block(b);
                }
            }
            BKind::BlockInout => {
                for (i, o) in chunks::<M::BlockSize>(inp).iter().zip(chunks_mut::<M::BlockSize>(out)) {
                    m.decrypt_block_inout((i, o).into());
                }
            }
            BKind::BlockB2b => {
                for (i, o) in chunks::<M::BlockSize>(inp).iter().zip(chunks_mut::<M::BlockSize>(out)) {
                    m.decrypt_block_b2b(i, o);
                }
            }
            BKind::BlocksIp => {
                out.copy_from_slice(inp);
                m.decrypt_blocks(chunks_mut::<M::BlockSize>(out));
            }
            BKind::BlocksInoutIp => {
                out.copy_from_slice(inp);
                m.decrypt_blocks_inout(chunks_mut::<M::BlockSize>(out).into());
            }
            BKind::BlocksInoutB2b => {
                let b = InOutBuf::new(chunks::<M::BlockSize>(inp), chunks_mut::<M::BlockSize>(out)).unwrap();
                m.decrypt_blocks_inout(b);
            }
            BKind::BlocksB2b => {
                m.decrypt_blocks_b2b(chunks::<M::BlockSize>(inp), chunks_mut::<M::BlockSize>(out))
                    .expect("contract: a b2b call with equal-length buffers was rejected");
            }
            BKind::BackendIp => {
                out.copy_from_slice(inp);
                let order = order_of(inp);
                m.decrypt_with_backend(UserClosure { inp: &[], out: chunks_mut::<M::BlockSize>(out), inplace: true, order });
            }
            BKind::BackendInout => {
                let order = order_of(inp);
                m.decrypt_with_backend(UserClosure { inp: chunks::<M::BlockSize>(inp), out: chunks_mut::<M::BlockSize>(out), inplace: false, order });
            }
            BKind::ConcBlock => {
                out.copy_from_slice(inp);
                let f = lookup_conc_blk::<M>();
                for b in chunks_mut::<M::BlockSize>(out) {
                    match &f {
                        Some(f) => (f.block)(m, b),
                        None => m.decrypt_block(b),
                    }
                }
            }
            BKind::ConcBlocks => {
                out.copy_from_slice(inp);
                match lookup_conc_blk::<M>() {
                    Some(f) => (f.blocks)(m, chunks_mut::<M::BlockSize>(out)),
                    None => m.decrypt_blocks(chunks_mut::<M::BlockSize>(out)),
                }
            }
            BKind::ConcBlocksB2b => {
                let ok = match lookup_conc_blk::<M>() {
                    Some(f) => (f.blocks_b2b)(m, chunks::<M::BlockSize>(inp), chunks_mut::<M::BlockSize>(out)),
                    None => m.decrypt_blocks_b2b(chunks::<M::BlockSize>(inp), chunks_mut::<M::BlockSize>(out)).is_ok(),
                };
                assert!(ok, "contract: a b2b call with equal-length buffers was rejected");
            }
        }
    }
    fn blocks_b2b_raw(&mut self, inp: &[u8], out: &mut [u8]) -> bool {
        self.m
            .decrypt_blocks_b2b(chunks::<M::BlockSize>(inp), chunks_mut::<M::BlockSize>(out))
            .is_ok()
    }
    fn iv_state(&self) -> Option<Vec<u8>> {
        self.ivf.map(|f| f(&self.m))
    }
    fn clone_box(&self) -> Box<dyn BlkObj> {
        zbox(DecAd {
            m: self.m.clone(),
            ivf: self.ivf,
            osf: self.osf,
        })
    }
    fn debug(&self) -> String {
        format!("{:?}", self.m)
    }
    fn debug_alt(&self) -> String {
        format!("{:#?}", self.m)
    }
    fn alg_name(&self) -> String {
        alg_name::<M>()
    }
    fn padded(self: Box<Self>, pad: Pad, form: Form, msg: &[u8], out: &mut [u8]) -> Result<Vec<u8>, ()> {
        let m = (*self).m;
        match pad {
            Pad::Pkcs7 => dec_padded::<M, Pkcs7>(m, form, msg, out),
            Pad::Iso7816 => dec_padded::<M, Iso7816>(m, form, msg, out),
            Pad::AnsiX923 => dec_padded::<M, AnsiX923>(m, form, msg, out),
            Pad::NoPadding => dec_padded::<M, NoPadding>(m, form, msg, out),
            Pad::Zero => dec_padded::<M, ZeroPadding>(m, form, msg, out),
        }
    }
    fn oneshot(self: Box<Self>, form: Form, inp: &[u8], out: &mut [u8]) -> Option<bool> {
        let f = self.osf?;
        let m = (*self).m;
        Some(f(m, form, inp, out))
    }
    fn drop_scan(self: Box<Self>) -> DropScan {
        drop_scan_box(self)
    }
    fn poke(&mut self, off: usize, mask: &[u8]) {
        poke_raw(self, off, mask)
    }
    fn as_any(&self) -> &dyn Any {
        self
    }
    fn clone_from_obj(&mut self, src: &dyn BlkObj) -> bool {
        match src.as_any().downcast_ref::<Self>() {
            Some(o) => {
                self.m.clone_from(&o.m);
                true
            }
            None => false,
        }
    }
}

/// constructor dispatch shared by everything that is `InnerIvInit` over a `KeyInit` cipher
fn construct<M>(ctor: Ctor, key: &[u8], iv: &[u8]) -> Result<M, ()>
where
    M: InnerIvInit + KeyIvInit,
    M::Inner: KeyInit,
{
    match ctor {
        Ctor::New => {
            let k = <&Key<M>>::try_from(key).expect("harness: key length");
            let i = <&Iv<M>>::try_from(iv).expect("harness: iv length");
            Ok(<M as KeyIvInit>::new(k, i))
        }
        Ctor::Slices => <M as KeyIvInit>::new_from_slices(key, iv).map_err(|_| ()),
        Ctor::Inner => {
            let c = <M::Inner as KeyInit>::new(&key_of::<M::Inner>(key));
            let i = <&Iv<M>>::try_from(iv).expect("harness: iv length");
            Ok(M::inner_iv_init(c, i))
        }
        Ctor::InnerSlice => {
            let c = <M::Inner as KeyInit>::new_from_slice(key).map_err(|_| ())?;
            M::inner_iv_slice_init(c, iv).map_err(|_| ())
        }
    }
}

pub type BlkMk = fn(Ctor, &[u8], &[u8]) -> Result<Box<dyn BlkObj>, ()>;

#[derive(Clone)]
pub struct BlkDesc {
    pub fam: Family,
    pub dir: Direction,
    pub iv_len: usize,
    /// mode block size
    pub bs: usize,
    pub has_iv_state: bool,
    pub has_oneshot: bool,
    pub mk: BlkMk,
}

pub fn mk_enc<M>(ctor: Ctor, key: &[u8], iv: &[u8]) -> Result<Box<dyn BlkObj>, ()>
where
    M: BlockModeEncrypt + IvState + InnerIvInit + Clone + fmt::Debug + AlgorithmName + Send + 'static,
    M::Inner: KeyInit,
{
    let m: M = construct(ctor, key, iv)?;
    Ok(zbox(EncAd { m, ivf: Some(ivf_of::<M>), osf: None }))
}
pub fn mk_dec<M>(ctor: Ctor, key: &[u8], iv: &[u8]) -> Result<Box<dyn BlkObj>, ()>
where
    M: BlockModeDecrypt + IvState + InnerIvInit + Clone + fmt::Debug + AlgorithmName + Send + 'static,
    M::Inner: KeyInit,
{
    let m: M = construct(ctor, key, iv)?;
    Ok(zbox(DecAd { m, ivf: Some(ivf_of::<M>), osf: None }))
}
/// with AsyncStreamCipher (CFB, CFB-8)
pub fn mk_enc_os<M>(ctor: Ctor, key: &[u8], iv: &[u8]) -> Result<Box<dyn BlkObj>, ()>
where
    M: BlockModeEncrypt + AsyncStreamCipher + IvState + InnerIvInit + Clone + fmt::Debug + AlgorithmName + Send + 'static,
    M::Inner: KeyInit,
{
    let m: M = construct(ctor, key, iv)?;
    Ok(zbox(EncAd { m, ivf: Some(ivf_of::<M>), osf: Some(os_enc::<M>) }))
}
pub fn mk_dec_os<M>(ctor: Ctor, key: &[u8], iv: &[u8]) -> Result<Box<dyn BlkObj>, ()>
where
    M: BlockModeDecrypt + AsyncStreamCipher + IvState + InnerIvInit + Clone + fmt::Debug + AlgorithmName + Send + 'static,
    M::Inner: KeyInit,
{
    let m: M = construct(ctor, key, iv)?;
    Ok(zbox(DecAd { m, ivf: Some(ivf_of::<M>), osf: Some(os_dec::<M>) }))
}
/// CFB over an encrypt-only cipher: no IvState
pub fn mk_enc_os_noiv<M>(ctor: Ctor, key: &[u8], iv: &[u8]) -> Result<Box<dyn BlkObj>, ()>
where
    M: BlockModeEncrypt + AsyncStreamCipher + InnerIvInit + Clone + fmt::Debug + AlgorithmName + Send + 'static,
    M::Inner: KeyInit,
{
    let m: M = construct(ctor, key, iv)?;
    Ok(zbox(EncAd { m, ivf: None, osf: Some(os_enc::<M>) }))
}
pub fn mk_dec_os_noiv<M>(ctor: Ctor, key: &[u8], iv: &[u8]) -> Result<Box<dyn BlkObj>, ()>
where
    M: BlockModeDecrypt + AsyncStreamCipher + InnerIvInit + Clone + fmt::Debug + AlgorithmName + Send + 'static,
    M::Inner: KeyInit,
{
    let m: M = construct(ctor, key, iv)?;
    Ok(zbox(DecAd { m, ivf: None, osf: Some(os_dec::<M>) }))
}

// ------------------------------------------------------------------ buffered CFB

pub trait BufObj: Send {
    fn apply(&mut self, data: &mut [u8]);
    fn state(&self) -> (Vec<u8>, usize);
    fn clone_box(&self) -> Box<dyn BufObj>;
    fn debug(&self) -> String;
    fn debug_alt(&self) -> String;
    fn alg_name(&self) -> String;
    fn drop_scan(self: Box<Self>) -> DropScan;
    fn poke(&mut self, off: usize, mask: &[u8]);
    fn as_any(&self) -> &dyn Any;
    /// `Clone::clone_from(self, src)`; false = `src` is another type or the type is not Clone
    fn clone_from_obj(&mut self, src: &dyn BufObj) -> bool;
}

pub struct BufEncAd<C: cipher::BlockCipherEncrypt>(cfb_mode::BufEncryptor<C>);
pub struct BufDecAd<C: cipher::BlockCipherEncrypt>(cfb_mode::BufDecryptor<C>);

impl<C> BufObj for BufEncAd<C>
where
    C: cipher::BlockCipherEncrypt + Clone + AlgorithmName + Send + 'static,
{
    fn apply(&mut self, data: &mut [u8]) {
        self.0.encrypt(data)
    }
    fn state(&self) -> (Vec<u8>, usize) {
        let (b, p) = self.0.get_state();
        (b.to_vec(), p)
    }
    fn clone_box(&self) -> Box<dyn BufObj> {
        zbox(BufEncAd(self.0.clone()))
    }
    fn debug(&self) -> String {
        format!("{:?}", self.0)
    }
    fn debug_alt(&self) -> String {
        format!("{:#?}", self.0)
    }
    fn alg_name(&self) -> String {
        alg_name::<cfb_mode::BufEncryptor<C>>()
    }
    fn drop_scan(self: Box<Self>) -> DropScan {
        drop_scan_box(self)
    }
    fn poke(&mut self, off: usize, mask: &[u8]) {
        poke_raw(self, off, mask)
    }
    fn as_any(&self) -> &dyn Any {
        self
    }
    fn clone_from_obj(&mut self, src: &dyn BufObj) -> bool {
        match src.as_any().downcast_ref::<Self>() {
            Some(o) => {
                self.0.clone_from(&o.0);
                true
            }
            None => false,
        }
    }
}
impl<C> BufObj for BufDecAd<C>
where
    C: cipher::BlockCipherEncrypt + Clone + AlgorithmName + Send + 'static,
{
    fn apply(&mut self, data: &mut [u8]) {
        self.0.decrypt(data)
    }
    fn state(&self) -> (Vec<u8>, usize) {
        let (b, p) = self.0.get_state();
        (b.to_vec(), p)
    }
    fn clone_box(&self) -> Box<dyn BufObj> {
        zbox(BufDecAd(self.0.clone()))
    }
    fn debug(&self) -> String {
        format!("{:?}", self.0)
    }
    fn debug_alt(&self) -> String {
        format!("{:#?}", self.0)
    }
    fn alg_name(&self) -> String {
        alg_name::<cfb_mode::BufDecryptor<C>>()
    }
    fn drop_scan(self: Box<Self>) -> DropScan {
        drop_scan_box(self)
    }
    fn poke(&mut self, off: usize, mask: &[u8]) {
        poke_raw(self, off, mask)
    }
    fn as_any(&self) -> &dyn Any {
        self
    }
    fn clone_from_obj(&mut self, src: &dyn BufObj) -> bool {
        match src.as_any().downcast_ref::<Self>() {
            Some(o) => {
                self.0.clone_from(&o.0);
                true
            }
            None => false,
        }
    }
}

pub type BufMk = fn(Ctor, &[u8], &[u8]) -> Result<Box<dyn BufObj>, ()>;
pub type BufFromState = fn(&[u8], &[u8], usize) -> Box<dyn BufObj>;

#[derive(Clone)]
pub struct BufDesc {
    pub dir: Direction,
    pub mk: BufMk,
    pub from_state: BufFromState,
}

pub fn mk_buf_enc<C>(ctor: Ctor, key: &[u8], iv: &[u8]) -> Result<Box<dyn BufObj>, ()>
where
    C: cipher::BlockCipherEncrypt + KeyInit + Clone + AlgorithmName + Send + 'static,
{
    let m: cfb_mode::BufEncryptor<C> = construct(ctor, key, iv)?;
    Ok(zbox(BufEncAd(m)))
}
pub fn mk_buf_dec<C>(ctor: Ctor, key: &[u8], iv: &[u8]) -> Result<Box<dyn BufObj>, ()>
where
    C: cipher::BlockCipherEncrypt + KeyInit + Clone + AlgorithmName + Send + 'static,
{
    let m: cfb_mode::BufDecryptor<C> = construct(ctor, key, iv)?;
    Ok(zbox(BufDecAd(m)))
}
pub fn buf_enc_from_state<C>(key: &[u8], blk: &[u8], pos: usize) -> Box<dyn BufObj>
where
    C: cipher::BlockCipherEncrypt + KeyInit + Clone + AlgorithmName + Send + 'static,
{
    let c = C::new(&key_of::<C>(key));
    let b = <&Block<C>>::try_from(blk).expect("harness: state block length");
    zbox(BufEncAd(cfb_mode::BufEncryptor::from_state(c, b, pos)))
}
pub fn buf_dec_from_state<C>(key: &[u8], blk: &[u8], pos: usize) -> Box<dyn BufObj>
where
    C: cipher::BlockCipherEncrypt + KeyInit + Clone + AlgorithmName + Send + 'static,
{
    let c = C::new(&key_of::<C>(key));
    let b = <&Block<C>>::try_from(blk).expect("harness: state block length");
    zbox(BufDecAd(cfb_mode::BufDecryptor::from_state(c, b, pos)))
}

// ------------------------------------------------------------------ byte-level stream ciphers

pub trait StreamObj: Send {
    fn bs(&self) -> usize;
    /// `try_apply_keystream` (in place; `out` receives a copy of `inp` first),
    /// `apply_keystream_b2b(inp, out)`, `try_apply_keystream_inout(InOutBuf::new(inp,out))`.
    /// Lengths may differ for B2b/Inout (then Err is expected). true = Ok.
    fn try_apply(&mut self, form: Form, inp: &[u8], out: &mut [u8]) -> bool;
    /// None = not seekable. Some(true) = Ok.  `pos` must fit the type (harness precondition).
    fn try_seek(&mut self, ty: SeekTy, pos: u128) -> Option<bool>;
    /// None = not seekable; Some(Err) = OverflowError
    fn try_current_pos(&self, ty: SeekTy) -> Option<Result<u128, ()>>;
    fn core_block_pos(&self) -> Option<u128>;
    fn core_remaining(&self) -> Option<usize>;
    fn core_iv_state(&self) -> Option<Vec<u8>>;
    fn clone_box(&self) -> Option<Box<dyn StreamObj>>;
    fn debug(&self) -> String;
    fn debug_alt(&self) -> String;
    fn core_debug(&self) -> String;
    fn alg_name(&self) -> String;
    fn drop_scan(self: Box<Self>) -> DropScan;
    fn poke(&mut self, off: usize, mask: &[u8]);
    fn as_any(&self) -> &dyn Any;
    /// `Clone::clone_from(self, src)`; false = `src` is another type or the type is not Clone
    fn clone_from_obj(&mut self, src: &dyn StreamObj) -> bool;
}

pub struct StreamAd<T: StreamCipherCore> {
    w: StreamCipherCoreWrapper<T>,
    seekf: Option<fn(&mut StreamCipherCoreWrapper<T>, SeekTy, u128) -> bool>,
    posf: Option<fn(&StreamCipherCoreWrapper<T>, SeekTy) -> Result<u128, ()>>,
    bposf: Option<fn(&T) -> u128>,
    ivf: Option<fn(&T) -> Vec<u8>>,
    clonef: Option<fn(&StreamCipherCoreWrapper<T>) -> StreamCipherCoreWrapper<T>>,
    clonefromf: Option<fn(&mut StreamCipherCoreWrapper<T>, &StreamCipherCoreWrapper<T>)>,
}

fn seek_impl<T: StreamCipherSeekCore>(w: &mut StreamCipherCoreWrapper<T>, ty: SeekTy, pos: u128) -> bool {
    match ty {
        SeekTy::I32 => w.try_seek(i32::try_from(pos).expect("harness: seek value fits i32")).is_ok(),
        SeekTy::U32 => w.try_seek(u32::try_from(pos).expect("harness: seek value fits u32")).is_ok(),
        SeekTy::U64 => w.try_seek(u64::try_from(pos).expect("harness: seek value fits u64")).is_ok(),
        SeekTy::U128 => w.try_seek(pos).is_ok(),
        SeekTy::Usize => w.try_seek(usize::try_from(pos).expect("harness: seek value fits usize")).is_ok(),
    }
}
fn pos_impl<T: StreamCipherSeekCore>(w: &StreamCipherCoreWrapper<T>, ty: SeekTy) -> Result<u128, ()> {
    match ty {
        SeekTy::I32 => w.try_current_pos::<i32>().map(|v| {
            assert!(v >= 0, "contract: negative position reported");
            v as u128
        }).map_err(|_| ()),
        SeekTy::U32 => w.try_current_pos::<u32>().map(|v| v as u128).map_err(|_| ()),
        SeekTy::U64 => w.try_current_pos::<u64>().map(|v| v as u128).map_err(|_| ()),
        SeekTy::U128 => w.try_current_pos::<u128>().map_err(|_| ()),
        SeekTy::Usize => w.try_current_pos::<usize>().map(|v| v as u128).map_err(|_| ()),
    }
}
fn bpos_impl<T: StreamCipherSeekCore>(c: &T) -> u128 {
    c.get_block_pos().try_into().ok().expect("counter fits u128")
}
fn clone_impl<T: StreamCipherCore + Clone>(w: &StreamCipherCoreWrapper<T>) -> StreamCipherCoreWrapper<T> {
    w.clone()
}
fn clone_from_impl<T: StreamCipherCore + Clone>(dst: &mut StreamCipherCoreWrapper<T>, src: &StreamCipherCoreWrapper<T>) {
    dst.clone_from(src)
}

impl<T> StreamObj for StreamAd<T>
where
    T: StreamCipherCore + fmt::Debug + AlgorithmName + Send + 'static,
{
    fn bs(&self) -> usize {
        T::BlockSize::USIZE
    }
    fn try_apply(&mut self, form: Form, inp: &[u8], out: &mut [u8]) -> bool {
        match form {
            Form::InPlace => {
                out.copy_from_slice(inp);
                self.w.try_apply_keystream(out).is_ok()
            }
            Form::B2b => self.w.apply_keystream_b2b(inp, out).is_ok(),
            Form::Inout => match InOutBuf::new(inp, out) {
                Ok(b) => self.w.try_apply_keystream_inout(b).is_ok(),
                Err(_) => false,
            },
            Form::Vec => unreachable!(),
        }
    }
    fn try_seek(&mut self, ty: SeekTy, pos: u128) -> Option<bool> {
        self.seekf.map(|f| f(&mut self.w, ty, pos))
    }
    fn try_current_pos(&self, ty: SeekTy) -> Option<Result<u128, ()>> {
        self.posf.map(|f| f(&self.w, ty))
    }
    fn core_block_pos(&self) -> Option<u128> {
        self.bposf.map(|f| f(self.w.get_core()))
    }
    fn core_remaining(&self) -> Option<usize> {
        self.w.get_core().remaining_blocks()
    }
    fn core_iv_state(&self) -> Option<Vec<u8>> {
        self.ivf.map(|f| f(self.w.get_core()))
    }
    fn clone_box(&self) -> Option<Box<dyn StreamObj>> {
        let f = self.clonef?;
        Some(zbox(StreamAd {
            w: f(&self.w),
            seekf: self.seekf,
            posf: self.posf,
            bposf: self.bposf,
            ivf: self.ivf,
            clonef: self.clonef,
            clonefromf: self.clonefromf,
        }))
    }
    fn debug(&self) -> String {
        format!("{:?}", self.w)
    }
    fn debug_alt(&self) -> String {
        format!("{:#?}", self.w)
    }
    fn core_debug(&self) -> String {
        format!("{:?}", self.w.get_core())
    }
    fn alg_name(&self) -> String {
        alg_name::<T>()
    }
    fn drop_scan(self: Box<Self>) -> DropScan {
        drop_scan_box(self)
    }
    fn poke(&mut self, off: usize, mask: &[u8]) {
        poke_raw(self, off, mask)
    }
    fn as_any(&self) -> &dyn Any {
        self
    }
    fn clone_from_obj(&mut self, src: &dyn StreamObj) -> bool {
        match (src.as_any().downcast_ref::<Self>(), self.clonefromf) {
            (Some(o), Some(f)) => {
                f(&mut self.w, &o.w);
                true
            }
            _ => false,
        }
    }
}

pub type StreamMk = fn(Ctor, &[u8], &[u8]) -> Result<Box<dyn StreamObj>, ()>;
/// build the core, `set_block_pos(p)`, wrap with `from_core`
pub type StreamMkAt = fn(&[u8], &[u8], u128) -> Box<dyn StreamObj>;

#[derive(Clone)]
pub struct StreamDesc {
    pub flavor: Flavor,
    pub mk: StreamMk,
    pub mk_at: Option<StreamMkAt>,
    pub cloneable: bool,
}

fn wrap_seek<T>(core: T, cloneable: Option<fn(&StreamCipherCoreWrapper<T>) -> StreamCipherCoreWrapper<T>>) -> Box<dyn StreamObj>
where
    T: StreamCipherSeekCore + IvState + fmt::Debug + AlgorithmName + Send + 'static,
{
    zbox(StreamAd {
        w: StreamCipherCoreWrapper::from_core(core),
        seekf: Some(seek_impl::<T>),
        posf: Some(pos_impl::<T>),
        bposf: Some(bpos_impl::<T>),
        ivf: Some(ivf_of::<T>),
        clonef: cloneable,
        clonefromf: None,
    })
}

/// The wrapper's own `KeyIvInit` (for `Ctor::New`/`Slices`) vs core + `from_core`.
fn construct_stream<T>(ctor: Ctor, key: &[u8], iv: &[u8]) -> Result<StreamCipherCoreWrapper<T>, ()>
where
    T: StreamCipherCore + InnerIvInit + KeyIvInit,
    T::Inner: KeyInit,
{
    match ctor {
        Ctor::New => {
            let k = <&Key<T>>::try_from(key).expect("harness: key length");
            let i = <&Iv<T>>::try_from(iv).expect("harness: iv length");
            Ok(<StreamCipherCoreWrapper<T> as KeyIvInit>::new(k, i))
        }
        Ctor::Slices => <StreamCipherCoreWrapper<T> as KeyIvInit>::new_from_slices(key, iv).map_err(|_| ()),
        Ctor::Inner | Ctor::InnerSlice => {
            let core: T = construct(ctor, key, iv)?;
            Ok(StreamCipherCoreWrapper::from_core(core))
        }
    }
}

pub fn mk_stream_seek<T>(ctor: Ctor, key: &[u8], iv: &[u8]) -> Result<Box<dyn StreamObj>, ()>
where
    T: StreamCipherSeekCore + IvState + InnerIvInit + Clone + fmt::Debug + AlgorithmName + Send + 'static,
    T::Inner: KeyInit,
{
    let w = construct_stream::<T>(ctor, key, iv)?;
    Ok(zbox(StreamAd {
        w,
        seekf: Some(seek_impl::<T>),
        posf: Some(pos_impl::<T>),
        bposf: Some(bpos_impl::<T>),
        ivf: Some(ivf_of::<T>),
        clonef: Some(clone_impl::<T>),
        clonefromf: Some(clone_from_impl::<T>),
    }))
}
/// seekable but not Clone (BeltCtrCore)
pub fn mk_stream_seek_noclone<T>(ctor: Ctor, key: &[u8], iv: &[u8]) -> Result<Box<dyn StreamObj>, ()>
where
    T: StreamCipherSeekCore + IvState + InnerIvInit + fmt::Debug + AlgorithmName + Send + 'static,
    T::Inner: KeyInit,
{
    let w = construct_stream::<T>(ctor, key, iv)?;
    let (clonef, clonefromf) = lookup_clone::<StreamCipherCoreWrapper<T>>();
    Ok(zbox(StreamAd {
        w,
        seekf: Some(seek_impl::<T>),
        posf: Some(pos_impl::<T>),
        bposf: Some(bpos_impl::<T>),
        ivf: Some(ivf_of::<T>),
        clonef,
        clonefromf,
    }))
}
/// seekable, encrypt-only cipher (no IvState for Belt; CTR has IvState always)
pub fn mk_stream_seek_noclone_noiv<T>(ctor: Ctor, key: &[u8], iv: &[u8]) -> Result<Box<dyn StreamObj>, ()>
where
    T: StreamCipherSeekCore + InnerIvInit + fmt::Debug + AlgorithmName + Send + 'static,
    T::Inner: KeyInit,
{
    let w = construct_stream::<T>(ctor, key, iv)?;
    Ok(zbox(StreamAd {
        w,
        seekf: Some(seek_impl::<T>),
        posf: Some(pos_impl::<T>),
        bposf: Some(bpos_impl::<T>),
        ivf: None,
        clonef: None,
        clonefromf: None,
    }))
}
/// not seekable (OFB)
pub fn mk_stream_plain<T>(ctor: Ctor, key: &[u8], iv: &[u8]) -> Result<Box<dyn StreamObj>, ()>
where
    T: StreamCipherCore + IvState + InnerIvInit + Clone + fmt::Debug + AlgorithmName + Send + 'static,
    T::Inner: KeyInit,
{
    let w = construct_stream::<T>(ctor, key, iv)?;
    Ok(zbox(StreamAd {
        w,
        seekf: None,
        posf: None,
        bposf: None,
        ivf: Some(ivf_of::<T>),
        clonef: Some(clone_impl::<T>),
        clonefromf: Some(clone_from_impl::<T>),
    }))
}
pub fn mk_stream_at<T>(key: &[u8], iv: &[u8], pos: u128) -> Box<dyn StreamObj>
where
    T: StreamCipherSeekCore + IvState + InnerIvInit + Clone + fmt::Debug + AlgorithmName + Send + 'static,
    T::Inner: KeyInit,
    T::Counter: TryFrom<u128>,
{
    let mut core: T = construct(Ctor::Inner, key, iv).expect("contract: constructor rejected a key/IV of the right length");
    let p = T::Counter::try_from(pos).ok().expect("harness: block position fits the counter type");
    core.set_block_pos(p);
    wrap_seek(core, Some(clone_impl::<T>))
}
pub fn mk_stream_at_noclone<T>(key: &[u8], iv: &[u8], pos: u128) -> Box<dyn StreamObj>
where
    T: StreamCipherSeekCore + IvState + InnerIvInit + fmt::Debug + AlgorithmName + Send + 'static,
    T::Inner: KeyInit,
    T::Counter: TryFrom<u128>,
{
    let mut core: T = construct(Ctor::Inner, key, iv).expect("contract: constructor rejected a key/IV of the right length");
    let p = T::Counter::try_from(pos).ok().expect("harness: block position fits the counter type");
    core.set_block_pos(p);
    wrap_seek(core, lookup_clone::<StreamCipherCoreWrapper<T>>().0)
}

// ------------------------------------------------------------------ keystream cores

#[derive(Clone, Copy, Debug, PartialEq, Eq, Hash, PartialOrd, Ord)]
pub enum CoreOp {
    /// `write_keystream_block` once per block (input ignored; out = keystream)
    WriteBlock,
    /// `write_keystream_blocks`
    WriteBlocks,
    /// `apply_keystream_block_inout` per block, b2b
    ApplyBlockInout,
    /// `apply_keystream_blocks` (in place)
    ApplyBlocks,
    /// `apply_keystream_blocks_inout` b2b
    ApplyBlocksInout,
    /// the caller's own closure handed to `process_with_backend`, calling `gen_par_ks_blocks` /
    /// `gen_tail_blocks` / `gen_ks_block` itself (out = keystream)
    BackendWrite,
}
pub const ALL_COREOPS: [CoreOp; 6] = [
    CoreOp::WriteBlock,
    CoreOp::WriteBlocks,
    CoreOp::ApplyBlockInout,
    CoreOp::ApplyBlocks,
    CoreOp::ApplyBlocksInout,
    CoreOp::BackendWrite,
];
impl CoreOp {
    pub fn name(self) -> &'static str {
        match self {
            CoreOp::WriteBlock => "write_keystream_block",
            CoreOp::WriteBlocks => "write_keystream_blocks",
            CoreOp::ApplyBlockInout => "apply_keystream_block_inout",
            CoreOp::ApplyBlocks => "apply_keystream_blocks",
            CoreOp::ApplyBlocksInout => "apply_keystream_blocks_inout",
            CoreOp::BackendWrite => "process_with_backend(gen_* methods)",
        }
    }
    pub fn is_write(self) -> bool {
        matches!(self, CoreOp::WriteBlock | CoreOp::WriteBlocks | CoreOp::BackendWrite)
    }
}

pub trait CoreObj: Send {
    fn bs(&self) -> usize;
    fn remaining_blocks(&self) -> Option<usize>;
    /// whole blocks; for Write* ops `out` receives raw keystream and `inp` is ignored
    fn op(&mut self, op: CoreOp, inp: &[u8], out: &mut [u8]);
    /// consuming `try_apply_keystream_partial` (in place on `out` after copying, or b2b)
    fn partial(self: Box<Self>, b2b: bool, inp: &[u8], out: &mut [u8]) -> bool;
    fn get_block_pos(&self) -> Option<u128>;
    fn set_block_pos(&mut self, p: u128) -> Option<()>;
    fn iv_state(&self) -> Option<Vec<u8>>;
    fn clone_box(&self) -> Option<Box<dyn CoreObj>>;
    fn debug(&self) -> String;
    fn debug_alt(&self) -> String;
    fn alg_name(&self) -> String;
    fn drop_scan(self: Box<Self>) -> DropScan;
    fn poke(&mut self, off: usize, mask: &[u8]);
    fn as_any(&self) -> &dyn Any;
    /// `Clone::clone_from(self, src)`; false = `src` is another type or the type is not Clone
    fn clone_from_obj(&mut self, src: &dyn CoreObj) -> bool;
}

pub struct CoreAd<T: StreamCipherCore> {
    c: T,
    getf: Option<fn(&T) -> u128>,
    setf: Option<fn(&mut T, u128)>,
    ivf: Option<fn(&T) -> Vec<u8>>,
    clonef: Option<fn(&T) -> T>,
    clonefromf: Option<fn(&mut T, &T)>,
}

fn set_impl<T: StreamCipherSeekCore>(c: &mut T, p: u128)
where
    T::Counter: TryFrom<u128>,
{
    let p = T::Counter::try_from(p).ok().expect("harness: block position fits the counter type");
    c.set_block_pos(p)
}
fn clone_core<T: Clone>(c: &T) -> T {
    c.clone()
}
fn clone_from_core<T: Clone>(dst: &mut T, src: &T) {
    dst.clone_from(src)
}

impl<T> CoreObj for CoreAd<T>
where
    T: StreamCipherCore + fmt::Debug + AlgorithmName + Send + 'static,
{
    fn bs(&self) -> usize {
        T::BlockSize::USIZE
    }
    fn remaining_blocks(&self) -> Option<usize> {
        self.c.remaining_blocks()
    }
    fn op(&mut self, op: CoreOp, inp: &[u8], out: &mut [u8]) {
        let c = &mut self.c;
        match op {
            CoreOp::WriteBlock => {
                for b in chunks_mut::<T::BlockSize>(out) {
                    c.write_keystream_block(b);
                }
            }
            CoreOp::WriteBlocks => {
                // every other call goes through method-call syntax on the concrete core type where
                // the instantiation crates registered it (an inherent method would take precedence)
                match lookup_conc_core::<T>().filter(|_| (out.len() / T::BlockSize::USIZE.max(1)) % 2 == 1) {
                    Some(f) => (f.write_blocks)(c, chunks_mut::<T::BlockSize>(out)),
                    None => c.write_keystream_blocks(chunks_mut::<T::BlockSize>(out)),
                }
            }
            CoreOp::ApplyBlockInout => {
                for (i, o) in chunks::<T::BlockSize>(inp).iter().zip(chunks_mut::<T::BlockSize>(out)) {
                    c.apply_keystream_block_inout((i, o).into());
                }
            }
            CoreOp::ApplyBlocks => {
                out.copy_from_slice(inp);
                match lookup_conc_core::<T>().filter(|_| order_of(inp) % 2 == 1) {
                    Some(f) => (f.apply_blocks)(c, chunks_mut::<T::BlockSize>(out)),
                    None => c.apply_keystream_blocks(chunks_mut::<T::BlockSize>(out)),
                }
            }
            CoreOp::ApplyBlocksInout => {
                let b = InOutBuf::new(chunks::<T::BlockSize>(inp), chunks_mut::<T::BlockSize>(out)).unwrap();
                c.apply_keystream_blocks_inout(b);
            }
            CoreOp::BackendWrite => {
                // the input bytes of a write op are ignored by the cipher: use them to pick the order
                let order = if inp.is_empty() { ((out.len() / T::BlockSize::USIZE.max(1)) % 5) as u8 } else { order_of(inp) };
                c.process_with_backend(UserKsClosure { out: chunks_mut::<T::BlockSize>(out), order });
            }
        }
    }
    fn partial(self: Box<Self>, b2b: bool, inp: &[u8], out: &mut [u8]) -> bool {
        // move the core out of the adapter without cloning (BeltCtrCore is not Clone)
        let ad = *self;
        let c = ad.c;
        if b2b {
            let b = InOutBuf::new(inp, out).expect("contract: a b2b call with equal-length buffers was rejected");
            c.try_apply_keystream_partial(b).is_ok()
        } else {
            out.copy_from_slice(inp);
            c.try_apply_keystream_partial(out.into()).is_ok()
        }
    }
    fn get_block_pos(&self) -> Option<u128> {
        self.getf.map(|f| f(&self.c))
    }
    fn set_block_pos(&mut self, p: u128) -> Option<()> {
        self.setf.map(|f| f(&mut self.c, p))
    }
    fn iv_state(&self) -> Option<Vec<u8>> {
        self.ivf.map(|f| f(&self.c))
    }
    fn clone_box(&self) -> Option<Box<dyn CoreObj>> {
        let f = self.clonef?;
        Some(zbox(CoreAd {
            c: f(&self.c),
            getf: self.getf,
            setf: self.setf,
            ivf: self.ivf,
            clonef: self.clonef,
            clonefromf: self.clonefromf,
        }))
    }
    fn debug(&self) -> String {
        format!("{:?}", self.c)
    }
    fn debug_alt(&self) -> String {
        format!("{:#?}", self.c)
    }
    fn alg_name(&self) -> String {
        alg_name::<T>()
    }
    fn drop_scan(self: Box<Self>) -> DropScan {
        drop_scan_box(self)
    }
    fn poke(&mut self, off: usize, mask: &[u8]) {
        poke_raw(self, off, mask)
    }
    fn as_any(&self) -> &dyn Any {
        self
    }
    fn clone_from_obj(&mut self, src: &dyn CoreObj) -> bool {
        match (src.as_any().downcast_ref::<Self>(), self.clonefromf) {
            (Some(o), Some(f)) => {
                f(&mut self.c, &o.c);
                true
            }
            _ => false,
        }
    }
}

pub type CoreMk = fn(Ctor, &[u8], &[u8]) -> Result<Box<dyn CoreObj>, ()>;

#[derive(Clone)]
pub struct CoreDesc {
    pub flavor: Flavor,
    pub mk: CoreMk,
    pub cloneable: bool,
}

pub fn mk_core_seek<T>(ctor: Ctor, key: &[u8], iv: &[u8]) -> Result<Box<dyn CoreObj>, ()>
where
    T: StreamCipherSeekCore + IvState + InnerIvInit + Clone + fmt::Debug + AlgorithmName + Send + 'static,
    T::Inner: KeyInit,
    T::Counter: TryFrom<u128>,
{
    let c: T = construct(ctor, key, iv)?;
    Ok(zbox(CoreAd {
        c,
        getf: Some(bpos_impl::<T>),
        setf: Some(set_impl::<T>),
        ivf: Some(ivf_of::<T>),
        clonef: Some(clone_core::<T>),
        clonefromf: Some(clone_from_core::<T>),
    }))
}
pub fn mk_core_seek_noclone<T>(ctor: Ctor, key: &[u8], iv: &[u8]) -> Result<Box<dyn CoreObj>, ()>
where
    T: StreamCipherSeekCore + IvState + InnerIvInit + fmt::Debug + AlgorithmName + Send + 'static,
    T::Inner: KeyInit,
    T::Counter: TryFrom<u128>,
{
    let c: T = construct(ctor, key, iv)?;
    let (clonef, clonefromf) = lookup_clone::<T>();
    Ok(zbox(CoreAd {
        c,
        getf: Some(bpos_impl::<T>),
        setf: Some(set_impl::<T>),
        ivf: Some(ivf_of::<T>),
        clonef,
        clonefromf,
    }))
}
pub fn mk_core_seek_noclone_noiv<T>(ctor: Ctor, key: &[u8], iv: &[u8]) -> Result<Box<dyn CoreObj>, ()>
where
    T: StreamCipherSeekCore + InnerIvInit + fmt::Debug + AlgorithmName + Send + 'static,
    T::Inner: KeyInit,
    T::Counter: TryFrom<u128>,
{
    let c: T = construct(ctor, key, iv)?;
    Ok(zbox(CoreAd {
        c,
        getf: Some(bpos_impl::<T>),
        setf: Some(set_impl::<T>),
        ivf: None,
        clonef: None,
        clonefromf: None,
    }))
}
pub fn mk_core_plain<T>(ctor: Ctor, key: &[u8], iv: &[u8]) -> Result<Box<dyn CoreObj>, ()>
where
    T: StreamCipherCore + IvState + InnerIvInit + Clone + fmt::Debug + AlgorithmName + Send + 'static,
    T::Inner: KeyInit,
{
    let c: T = construct(ctor, key, iv)?;
    Ok(zbox(CoreAd {
        c,
        getf: None,
        setf: None,
        ivf: Some(ivf_of::<T>),
        clonef: Some(clone_core::<T>),
        clonefromf: Some(clone_from_core::<T>),
    }))
}

// ------------------------------------------------------------------ ciphertext stealing

pub trait CtsObj: Send {
    /// consuming; true = Ok. InPlace copies `inp` to `out` first; B2b/Inout may have
    /// unequal lengths (B2b only; Inout requires equal)
    fn run(self: Box<Self>, dir: Direction, form: Form, inp: &[u8], out: &mut [u8]) -> bool;
    fn clone_box(&self) -> Box<dyn CtsObj>;
}

pub struct CtsAd<M>(M);

impl<M> CtsObj for CtsAd<M>
where
    M: cts::Encrypt + cts::Decrypt + Clone + Send + 'static,
{
    fn run(self: Box<Self>, dir: Direction, form: Form, inp: &[u8], out: &mut [u8]) -> bool {
        let m = self.0;
        match (dir, form) {
            (Direction::Enc, Form::InPlace) => {
                out.copy_from_slice(inp);
                m.encrypt(out).is_ok()
            }
            (Direction::Enc, Form::B2b) => m.encrypt_b2b(inp, out).is_ok(),
            (Direction::Enc, Form::Inout) => m.encrypt_inout(InOutBuf::new(inp, out).expect("harness: equal lengths")).is_ok(),
            (Direction::Dec, Form::InPlace) => {
                out.copy_from_slice(inp);
                m.decrypt(out).is_ok()
            }
            (Direction::Dec, Form::B2b) => m.decrypt_b2b(inp, out).is_ok(),
            (Direction::Dec, Form::Inout) => m.decrypt_inout(InOutBuf::new(inp, out).expect("harness: equal lengths")).is_ok(),
            (_, Form::Vec) => unreachable!(),
        }
    }
    fn clone_box(&self) -> Box<dyn CtsObj> {
        Box::new(CtsAd(self.0.clone()))
    }
}

pub type CtsMk = fn(Ctor, &[u8], &[u8]) -> Result<Box<dyn CtsObj>, ()>;

#[derive(Clone)]
pub struct CtsDesc {
    pub var: CtsVar,
    pub mk: CtsMk,
}

pub fn mk_cts_cbc<M>(ctor: Ctor, key: &[u8], iv: &[u8]) -> Result<Box<dyn CtsObj>, ()>
where
    M: cts::Encrypt + cts::Decrypt + InnerIvInit + Clone + Send + 'static,
    M::Inner: KeyInit,
{
    let m: M = construct(ctor, key, iv)?;
    Ok(Box::new(CtsAd(m)))
}
pub fn mk_cts_ecb<M>(ctor: Ctor, key: &[u8], _iv: &[u8]) -> Result<Box<dyn CtsObj>, ()>
where
    M: cts::Encrypt + cts::Decrypt + cipher::crypto_common::InnerInit + KeyInit + Clone + Send + 'static,
    M::Inner: KeyInit,
{
    let m: M = match ctor {
        Ctor::New => <M as KeyInit>::new(<&Key<M>>::try_from(key).expect("harness: key length")),
        Ctor::Slices | Ctor::InnerSlice => <M as KeyInit>::new_from_slice(key).map_err(|_| ())?,
        Ctor::Inner => M::inner_init(<M::Inner as KeyInit>::new(&key_of::<M::Inner>(key))),
    };
    Ok(Box::new(CtsAd(m)))
}

// ------------------------------------------------------------------ configuration registry

pub struct Cfg {
    pub name: String,
    pub bs: usize,
    pub par: usize,
    pub key_len: usize,
    pub spied: bool,
    pub enc_only: bool,
    pub real: bool,
    pub mk_ref: fn(&[u8]) -> Box<dyn RefCipher>,
    pub blk: Vec<BlkDesc>,
    pub buf: Vec<BufDesc>,
    pub streams: Vec<StreamDesc>,
    pub cores: Vec<CoreDesc>,
    pub cts: Vec<CtsDesc>,
}

impl Cfg {
    pub fn blk(&self, fam: Family, dir: Direction) -> Option<&BlkDesc> {
        self.blk.iter().find(|d| d.fam == fam && d.dir == dir)
    }
    pub fn stream(&self, f: Flavor) -> Option<&StreamDesc> {
        self.streams.iter().find(|d| d.flavor == f)
    }
    pub fn core(&self, f: Flavor) -> Option<&CoreDesc> {
        self.cores.iter().find(|d| d.flavor == f)
    }
    pub fn cts(&self, v: CtsVar) -> Option<&CtsDesc> {
        self.cts.iter().find(|d| d.var == v)
    }
    pub fn buf(&self, dir: Direction) -> Option<&BufDesc> {
        self.buf.iter().find(|d| d.dir == dir)
    }
}

pub fn inner_user_check<T: InnerUser>() {}
pub fn bsu_check<T: BlockSizeUser>() {}
