//! Small self-contained utilities: PRNG, JSON writer/reader, hex, panic capture.

use std::cell::RefCell;
use std::fmt::Write as _;
use std::panic::{AssertUnwindSafe, catch_unwind};

// ---------------------------------------------------------------- PRNG

#[derive(Clone, Debug)]
pub struct Rng {
    s: [u64; 4],
}

pub fn splitmix(x: &mut u64) -> u64 {
    *x = x.wrapping_add(0x9E37_79B9_7F4A_7C15);
    let mut z = *x;
    z = (z ^ (z >> 30)).wrapping_mul(0xBF58_476D_1CE4_E5B9);
    z = (z ^ (z >> 27)).wrapping_mul(0x94D0_49BB_1331_11EB);
    z ^ (z >> 31)
}

pub fn mix(a: u64, b: u64) -> u64 {
    let mut x = a ^ b.rotate_left(32) ^ 0xD6E8_FEB8_6659_FD93;
    let r = splitmix(&mut x);
    let mut y = r ^ b;
    splitmix(&mut y)
}

pub fn hash_str(s: &str) -> u64 {
    let mut h = 0xcbf2_9ce4_8422_2325u64;
    for b in s.bytes() {
        h ^= b as u64;
        h = h.wrapping_mul(0x1_0000_0001_b3);
    }
    h
}

pub fn hash_bytes(s: &[u8]) -> u64 {
    let mut h = 0xcbf2_9ce4_8422_2325u64;
    for b in s {
        h ^= *b as u64;
        h = h.wrapping_mul(0x1_0000_0001_b3);
    }
    h
}

impl Rng {
    pub fn new(seed: u64) -> Self {
        let mut x = seed;
        let s = [
            splitmix(&mut x),
            splitmix(&mut x),
            splitmix(&mut x),
            splitmix(&mut x),
        ];
        Rng { s }
    }
    pub fn next(&mut self) -> u64 {
        let r = self.s[1].wrapping_mul(5).rotate_left(7).wrapping_mul(9);
        let t = self.s[1] << 17;
        self.s[2] ^= self.s[0];
        self.s[3] ^= self.s[1];
        self.s[1] ^= self.s[2];
        self.s[0] ^= self.s[3];
        self.s[2] ^= t;
        self.s[3] = self.s[3].rotate_left(45);
        r
    }
    /// uniform in 0..n (n > 0)
    pub fn below(&mut self, n: usize) -> usize {
        if n <= 1 {
            return 0;
        }
        (self.next() % n as u64) as usize
    }
    pub fn range(&mut self, lo: usize, hi_incl: usize) -> usize {
        lo + self.below(hi_incl - lo + 1)
    }
    pub fn coin(&mut self) -> bool {
        self.next() & 1 == 1
    }
    pub fn chance(&mut self, num: u32, den: u32) -> bool {
        (self.next() % den as u64) < num as u64
    }
    pub fn pick<'a, T>(&mut self, xs: &'a [T]) -> &'a T {
        &xs[self.below(xs.len())]
    }
    pub fn fill(&mut self, buf: &mut [u8]) {
        for ch in buf.chunks_mut(8) {
            let v = self.next().to_le_bytes();
            ch.copy_from_slice(&v[..ch.len()]);
        }
    }
    pub fn bytes(&mut self, n: usize) -> Vec<u8> {
        let mut v = vec![0u8; n];
        self.fill(&mut v);
        v
    }
    pub fn u128(&mut self) -> u128 {
        ((self.next() as u128) << 64) | self.next() as u128
    }
}

// ---------------------------------------------------------------- hex

pub fn hex(b: &[u8]) -> String {
    let mut s = String::with_capacity(b.len() * 2);
    for x in b {
        let _ = write!(s, "{:02x}", x);
    }
    s
}

pub fn hex_short(b: &[u8]) -> String {
    if b.len() <= 48 {
        hex(b)
    } else {
        format!(
            "{}..{}(len={},h={:016x})",
            hex(&b[..16]),
            hex(&b[b.len() - 8..]),
            b.len(),
            hash_bytes(b)
        )
    }
}

pub fn unhex(s: &str) -> Vec<u8> {
    let s: Vec<u8> = s.bytes().filter(|c| !c.is_ascii_whitespace()).collect();
    assert!(s.len() % 2 == 0, "odd hex");
    s.chunks(2)
        .map(|p| {
            let h = (p[0] as char).to_digit(16).expect("hex");
            let l = (p[1] as char).to_digit(16).expect("hex");
            (h * 16 + l) as u8
        })
        .collect()
}

pub fn xor_into(a: &mut [u8], b: &[u8]) {
    for (x, y) in a.iter_mut().zip(b) {
        *x ^= *y;
    }
}

pub fn xor(a: &[u8], b: &[u8]) -> Vec<u8> {
    a.iter().zip(b).map(|(x, y)| x ^ y).collect()
}

// ---------------------------------------------------------------- JSON

#[derive(Clone, Debug, PartialEq)]
pub enum J {
    Null,
    Bool(bool),
    Int(i128),
    Num(f64),
    Str(String),
    Arr(Vec<J>),
    Obj(Vec<(String, J)>),
}

impl J {
    pub fn obj() -> J {
        J::Obj(Vec::new())
    }
    pub fn s(x: impl Into<String>) -> J {
        J::Str(x.into())
    }
    pub fn i(x: impl TryInto<i128>) -> J {
        J::Int(x.try_into().ok().unwrap_or(i128::MAX))
    }
    pub fn set(mut self, k: &str, v: J) -> J {
        if let J::Obj(ref mut o) = self {
            if let Some(e) = o.iter_mut().find(|e| e.0 == k) {
                e.1 = v;
            } else {
                o.push((k.to_string(), v));
            }
        }
        self
    }
    pub fn put(&mut self, k: &str, v: J) {
        if let J::Obj(o) = self {
            if let Some(e) = o.iter_mut().find(|e| e.0 == k) {
                e.1 = v;
            } else {
                o.push((k.to_string(), v));
            }
        }
    }
    pub fn get(&self, k: &str) -> Option<&J> {
        match self {
            J::Obj(o) => o.iter().find(|e| e.0 == k).map(|e| &e.1),
            _ => None,
        }
    }
    pub fn as_str(&self) -> Option<&str> {
        match self {
            J::Str(s) => Some(s),
            _ => None,
        }
    }
    pub fn as_u64(&self) -> Option<u64> {
        match self {
            J::Int(i) => u64::try_from(*i).ok(),
            J::Str(s) => s.parse().ok(),
            _ => None,
        }
    }
    pub fn to_string(&self) -> String {
        let mut s = String::new();
        self.write(&mut s);
        s
    }
    fn write(&self, out: &mut String) {
        match self {
            J::Null => out.push_str("null"),
            J::Bool(b) => out.push_str(if *b { "true" } else { "false" }),
            J::Int(i) => {
                let _ = write!(out, "{}", i);
            }
            J::Num(f) => {
                if f.is_finite() {
                    let _ = write!(out, "{}", f);
                } else {
                    out.push_str("null");
                }
            }
            J::Str(s) => write_json_str(out, s),
            J::Arr(a) => {
                out.push('[');
                for (i, x) in a.iter().enumerate() {
                    if i > 0 {
                        out.push(',');
                    }
                    x.write(out);
                }
                out.push(']');
            }
            J::Obj(o) => {
                out.push('{');
                for (i, (k, v)) in o.iter().enumerate() {
                    if i > 0 {
                        out.push(',');
                    }
                    write_json_str(out, k);
                    out.push(':');
                    v.write(out);
                }
                out.push('}');
            }
        }
    }
    /// minimal parser (objects, arrays, strings, ints, floats, bools, null)
    pub fn parse(s: &str) -> Result<J, String> {
        let b = s.as_bytes();
        let mut p = 0usize;
        let v = parse_val(b, &mut p)?;
        skip_ws(b, &mut p);
        if p != b.len() {
            return Err(format!("trailing data at {}", p));
        }
        Ok(v)
    }
}

fn write_json_str(out: &mut String, s: &str) {
    out.push('"');
    for c in s.chars() {
        match c {
            '"' => out.push_str("\\\""),
            '\\' => out.push_str("\\\\"),
            '\n' => out.push_str("\\n"),
            '\r' => out.push_str("\\r"),
            '\t' => out.push_str("\\t"),
            c if (c as u32) < 0x20 => {
                let _ = write!(out, "\\u{:04x}", c as u32);
            }
            c => out.push(c),
        }
    }
    out.push('"');
}

fn skip_ws(b: &[u8], p: &mut usize) {
    while *p < b.len() && (b[*p] as char).is_ascii_whitespace() {
        *p += 1;
    }
}

fn parse_val(b: &[u8], p: &mut usize) -> Result<J, String> {
    skip_ws(b, p);
    if *p >= b.len() {
        return Err("eof".into());
    }
    match b[*p] {
        b'{' => {
            *p += 1;
            let mut o = Vec::new();
            loop {
                skip_ws(b, p);
                if *p < b.len() && b[*p] == b'}' {
                    *p += 1;
                    break;
                }
                let k = match parse_val(b, p)? {
                    J::Str(s) => s,
                    _ => return Err("key".into()),
                };
                skip_ws(b, p);
                if *p >= b.len() || b[*p] != b':' {
                    return Err("colon".into());
                }
                *p += 1;
                let v = parse_val(b, p)?;
                o.push((k, v));
                skip_ws(b, p);
                if *p < b.len() && b[*p] == b',' {
                    *p += 1;
                }
            }
            Ok(J::Obj(o))
        }
        b'[' => {
            *p += 1;
            let mut a = Vec::new();
            loop {
                skip_ws(b, p);
                if *p < b.len() && b[*p] == b']' {
                    *p += 1;
                    break;
                }
                a.push(parse_val(b, p)?);
                skip_ws(b, p);
                if *p < b.len() && b[*p] == b',' {
                    *p += 1;
                }
            }
            Ok(J::Arr(a))
        }
        b'"' => {
            *p += 1;
            let mut s = String::new();
            while *p < b.len() && b[*p] != b'"' {
                if b[*p] == b'\\' {
                    *p += 1;
                    match b.get(*p) {
                        Some(b'n') => s.push('\n'),
                        Some(b't') => s.push('\t'),
                        Some(b'r') => s.push('\r'),
                        Some(b'u') => {
                            let h = std::str::from_utf8(&b[*p + 1..*p + 5]).map_err(|e| e.to_string())?;
                            let c = u32::from_str_radix(h, 16).map_err(|e| e.to_string())?;
                            s.push(char::from_u32(c).unwrap_or('?'));
                            *p += 4;
                        }
                        Some(c) => s.push(*c as char),
                        None => return Err("esc".into()),
                    }
                    *p += 1;
                } else {
                    // copy utf-8 bytes verbatim
                    let start = *p;
                    *p += 1;
                    while *p < b.len() && (b[*p] & 0xC0) == 0x80 {
                        *p += 1;
                    }
                    s.push_str(std::str::from_utf8(&b[start..*p]).map_err(|e| e.to_string())?);
                }
            }
            *p += 1;
            Ok(J::Str(s))
        }
        b't' => {
            *p += 4;
            Ok(J::Bool(true))
        }
        b'f' => {
            *p += 5;
            Ok(J::Bool(false))
        }
        b'n' => {
            *p += 4;
            Ok(J::Null)
        }
        _ => {
            let start = *p;
            while *p < b.len() && matches!(b[*p], b'0'..=b'9' | b'-' | b'+' | b'.' | b'e' | b'E') {
                *p += 1;
            }
            let t = std::str::from_utf8(&b[start..*p]).map_err(|e| e.to_string())?;
            if let Ok(i) = t.parse::<i128>() {
                Ok(J::Int(i))
            } else {
                t.parse::<f64>().map(J::Num).map_err(|e| format!("num {:?}: {}", t, e))
            }
        }
    }
}

// ---------------------------------------------------------------- panics as values

thread_local! {
    static LAST_PANIC: RefCell<Option<String>> = const { RefCell::new(None) };
    /// every panic message+location observed on this thread since the last `panic_log_take`
    static PANIC_LOG: RefCell<Vec<String>> = const { RefCell::new(Vec::new()) };
}

pub fn panic_log_take() -> Vec<String> {
    PANIC_LOG.with(|p| std::mem::take(&mut *p.borrow_mut()))
}

/// Install a process-wide hook that stores message+location in a thread-local
/// instead of printing (monitored calls run under `guard`).
pub fn install_panic_hook() {
    std::panic::set_hook(Box::new(|info| {
        let loc = info
            .location()
            .map(|l| format!("{}:{}", l.file(), l.line()))
            .unwrap_or_default();
        let msg = if let Some(s) = info.payload().downcast_ref::<&str>() {
            s.to_string()
        } else if let Some(s) = info.payload().downcast_ref::<String>() {
            s.clone()
        } else {
            "<non-string panic>".to_string()
        };
        let full = format!("{} @ {}", msg, loc);
        PANIC_LOG.with(|p| {
            let mut p = p.borrow_mut();
            if p.len() < 64 {
                p.push(full.clone());
            }
        });
        LAST_PANIC.with(|p| *p.borrow_mut() = Some(full));
    }));
}

#[derive(Clone, Debug, PartialEq, Eq)]
pub struct PanicInfo(pub String);

/// Run `f`, turning an unwind into a value.
pub fn guard<T>(f: impl FnOnce() -> T) -> Result<T, PanicInfo> {
    match catch_unwind(AssertUnwindSafe(f)) {
        Ok(v) => Ok(v),
        Err(_) => {
            let m = LAST_PANIC
                .with(|p| p.borrow_mut().take())
                .unwrap_or_else(|| "<panic>".into());
            Err(PanicInfo(m))
        }
    }
}

/// strip the registry/user specific prefix of a panic location so signatures are stable
pub fn panic_site(p: &PanicInfo) -> String {
    let s = &p.0;
    if let Some(at) = s.rfind(" @ ") {
        let loc = &s[at + 3..];
        let short = if let Some(i) = loc.find("/registry/src/") {
            let rest = &loc[i + 14..];
            rest.split_once('/').map(|x| x.1).unwrap_or(rest)
        } else {
            loc.trim_start_matches("/repo/")
        };
        format!("{} @ {}", &s[..at], short)
    } else {
        s.clone()
    }
}
