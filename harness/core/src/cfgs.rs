//! Instantiation of every public mode type for a list of cipher configurations.

use crate::spy::{self, RefCipher, RefEnc, RefFull, Spy, Toy};
use crate::subj::*;
use cipher::{
    AlgorithmName, BlockCipherDecrypt, BlockCipherEncrypt, BlockSizeUser, KeyInit,
    array::ArraySize,
    consts::*,
    typenum::{Sum, Unsigned},
};
use core::ops::Add;
use ctr::CtrFlavor;
use ctr::flavors as fl;

pub trait FullCipher:
    BlockCipherEncrypt + BlockCipherDecrypt + KeyInit + Clone + AlgorithmName + Send + Sync + 'static
{
}
impl<T> FullCipher for T where
    T: BlockCipherEncrypt + BlockCipherDecrypt + KeyInit + Clone + AlgorithmName + Send + Sync + 'static
{
}
pub trait EncCipher: BlockCipherEncrypt + KeyInit + Clone + AlgorithmName + Send + Sync + 'static {}
impl<T> EncCipher for T where T: BlockCipherEncrypt + KeyInit + Clone + AlgorithmName + Send + Sync + 'static {}

fn mk_ref_full<R: FullCipher>(key: &[u8]) -> Box<dyn RefCipher> {
    Box::new(RefFull(R::new_from_slice(key).expect("harness: key length")))
}
fn mk_ref_enc<R: EncCipher>(key: &[u8]) -> Box<dyn RefCipher> {
    Box::new(RefEnc(R::new_from_slice(key).expect("harness: key length")))
}

/// measure the widest batch the cipher's backend accepts (observed, not declared)
fn observed_width<C: BlockCipherEncrypt + KeyInit>() -> usize {
    let key = vec![7u8; C::key_size()];
    let c = C::new_from_slice(&key).expect("key");
    let mut blocks = vec![cipher::Block::<C>::default(); 70];
    spy::log_start();
    c.encrypt_blocks(&mut blocks);
    let evs = spy::log_stop();
    evs.iter().map(|e| e.width as usize).max().unwrap_or(1)
}

/// All types that need both cipher directions (or work with either).
/// `C` is the (spied) cipher the modes are instantiated with, `R` the unspied reference.
pub fn full_cfg<C, R>(name: &str, spied: bool, real: bool) -> Cfg
where
    C: FullCipher,
    R: FullCipher,
    C::BlockSize: Add<C::BlockSize>,
    Sum<C::BlockSize, C::BlockSize>: ArraySize,
{
    let bs = C::BlockSize::USIZE;
    let par = if spied { observed_width::<C>() } else { 0 };
    let mut blk = Vec::new();
    let mut push = |fam, dir, iv_len, mbs, has_iv_state, has_oneshot, mk: BlkMk| {
        blk.push(BlkDesc { fam, dir, iv_len, bs: mbs, has_iv_state, has_oneshot, mk });
    };
    push(Family::Cbc, Direction::Enc, bs, bs, true, false, mk_enc::<cbc::Encryptor<C>>);
    push(Family::Cbc, Direction::Dec, bs, bs, true, false, mk_dec::<cbc::Decryptor<C>>);
    push(Family::Pcbc, Direction::Enc, bs, bs, true, false, mk_enc::<pcbc::Encryptor<C>>);
    push(Family::Pcbc, Direction::Dec, bs, bs, true, false, mk_dec::<pcbc::Decryptor<C>>);
    push(Family::Ige, Direction::Enc, 2 * bs, bs, true, false, mk_enc::<ige::Encryptor<C>>);
    push(Family::Ige, Direction::Dec, 2 * bs, bs, true, false, mk_dec::<ige::Decryptor<C>>);
    push(Family::Cfb, Direction::Enc, bs, bs, true, true, mk_enc_os::<cfb_mode::Encryptor<C>>);
    push(Family::Cfb, Direction::Dec, bs, bs, true, true, mk_dec_os::<cfb_mode::Decryptor<C>>);
    push(Family::Cfb8, Direction::Enc, bs, 1, true, true, mk_enc_os::<cfb8::Encryptor<C>>);
    push(Family::Cfb8, Direction::Dec, bs, 1, true, true, mk_dec_os::<cfb8::Decryptor<C>>);
    push(Family::OfbBlk, Direction::Enc, bs, bs, true, false, mk_enc::<ofb::OfbCore<C>>);
    push(Family::OfbBlk, Direction::Dec, bs, bs, true, false, mk_dec::<ofb::OfbCore<C>>);

    let buf = vec![
        BufDesc { dir: Direction::Enc, mk: mk_buf_enc::<C>, from_state: buf_enc_from_state::<C> },
        BufDesc { dir: Direction::Dec, mk: mk_buf_dec::<C>, from_state: buf_dec_from_state::<C> },
    ];
    let streams = vec![StreamDesc {
        flavor: Flavor::Ofb,
        mk: mk_stream_plain::<ofb::OfbCore<C>>,
        mk_at: None,
        cloneable: true,
    }];
    let cores = vec![CoreDesc { flavor: Flavor::Ofb, mk: mk_core_plain::<ofb::OfbCore<C>>, cloneable: true }];
    let cts = vec![
        CtsDesc { var: CtsVar::CbcCs1, mk: mk_cts_cbc::<cts::CbcCs1<C>> },
        CtsDesc { var: CtsVar::CbcCs2, mk: mk_cts_cbc::<cts::CbcCs2<C>> },
        CtsDesc { var: CtsVar::CbcCs3, mk: mk_cts_cbc::<cts::CbcCs3<C>> },
        CtsDesc { var: CtsVar::EcbCs1, mk: mk_cts_ecb::<cts::EcbCs1<C>> },
        CtsDesc { var: CtsVar::EcbCs2, mk: mk_cts_ecb::<cts::EcbCs2<C>> },
        CtsDesc { var: CtsVar::EcbCs3, mk: mk_cts_ecb::<cts::EcbCs3<C>> },
    ];
    Cfg {
        name: name.to_string(),
        bs,
        par,
        key_len: C::key_size(),
        spied,
        enc_only: false,
        real,
        mk_ref: mk_ref_full::<R>,
        blk,
        buf,
        streams,
        cores,
        cts,
    }
}

/// Types that must compile and run over an encrypt-only cipher.
pub fn enc_cfg<C, R>(name: &str, spied: bool, real: bool) -> Cfg
where
    C: EncCipher,
    R: EncCipher,
{
    let bs = C::BlockSize::USIZE;
    let par = if spied { observed_width::<C>() } else { 0 };
    let mut blk = Vec::new();
    let mut push = |fam, dir, iv_len, mbs, has_iv_state, has_oneshot, mk: BlkMk| {
        blk.push(BlkDesc { fam, dir, iv_len, bs: mbs, has_iv_state, has_oneshot, mk });
    };
    push(Family::Cfb, Direction::Enc, bs, bs, false, true, mk_enc_os_noiv::<cfb_mode::Encryptor<C>>);
    push(Family::Cfb, Direction::Dec, bs, bs, false, true, mk_dec_os_noiv::<cfb_mode::Decryptor<C>>);
    push(Family::Cfb8, Direction::Enc, bs, 1, true, true, mk_enc_os::<cfb8::Encryptor<C>>);
    push(Family::Cfb8, Direction::Dec, bs, 1, true, true, mk_dec_os::<cfb8::Decryptor<C>>);
    push(Family::OfbBlk, Direction::Enc, bs, bs, true, false, mk_enc::<ofb::OfbCore<C>>);
    push(Family::OfbBlk, Direction::Dec, bs, bs, true, false, mk_dec::<ofb::OfbCore<C>>);
    let buf = vec![
        BufDesc { dir: Direction::Enc, mk: mk_buf_enc::<C>, from_state: buf_enc_from_state::<C> },
        BufDesc { dir: Direction::Dec, mk: mk_buf_dec::<C>, from_state: buf_dec_from_state::<C> },
    ];
    let streams = vec![StreamDesc {
        flavor: Flavor::Ofb,
        mk: mk_stream_plain::<ofb::OfbCore<C>>,
        mk_at: None,
        cloneable: true,
    }];
    let cores = vec![CoreDesc { flavor: Flavor::Ofb, mk: mk_core_plain::<ofb::OfbCore<C>>, cloneable: true }];
    Cfg {
        name: name.to_string(),
        bs,
        par,
        key_len: C::key_size(),
        spied,
        enc_only: true,
        real,
        mk_ref: mk_ref_enc::<R>,
        blk,
        buf,
        streams,
        cores,
        cts: Vec::new(),
    }
}

macro_rules! add_ctr_fn {
    ($name:ident, $be:ty, $le:ty, $fbe:expr, $fle:expr) => {
        pub fn $name<C>(cfg: &mut Cfg)
        where
            C: EncCipher,
            $be: CtrFlavor<C::BlockSize>,
            $le: CtrFlavor<C::BlockSize>,
            <$be as CtrFlavor<C::BlockSize>>::CtrNonce: Send + 'static,
            <$le as CtrFlavor<C::BlockSize>>::CtrNonce: Send + 'static,
        {
            cfg.streams.push(StreamDesc {
                flavor: $fbe,
                mk: mk_stream_seek::<ctr::CtrCore<C, $be>>,
                mk_at: Some(mk_stream_at::<ctr::CtrCore<C, $be>>),
                cloneable: true,
            });
            cfg.streams.push(StreamDesc {
                flavor: $fle,
                mk: mk_stream_seek::<ctr::CtrCore<C, $le>>,
                mk_at: Some(mk_stream_at::<ctr::CtrCore<C, $le>>),
                cloneable: true,
            });
            cfg.cores.push(CoreDesc { flavor: $fbe, mk: mk_core_seek::<ctr::CtrCore<C, $be>>, cloneable: true });
            cfg.cores.push(CoreDesc { flavor: $fle, mk: mk_core_seek::<ctr::CtrCore<C, $le>>, cloneable: true });
        }
    };
}
add_ctr_fn!(add_ctr32, fl::Ctr32BE, fl::Ctr32LE, Flavor::Ctr32BE, Flavor::Ctr32LE);
add_ctr_fn!(add_ctr64, fl::Ctr64BE, fl::Ctr64LE, Flavor::Ctr64BE, Flavor::Ctr64LE);
add_ctr_fn!(add_ctr128, fl::Ctr128BE, fl::Ctr128LE, Flavor::Ctr128BE, Flavor::Ctr128LE);

pub fn add_belt<C>(cfg: &mut Cfg)
where
    C: FullCipher + BlockSizeUser<BlockSize = U16>,
{
    // BeltCtrCore is not Clone today; if it ever becomes Clone (see `clone_probe!` in the
    // instantiation crates) the C16 monitors pick it up
    let wrapper_clone = lookup_clone::<cipher::StreamCipherCoreWrapper<belt_ctr::BeltCtrCore<C>>>().0.is_some();
    let core_clone = lookup_clone::<belt_ctr::BeltCtrCore<C>>().0.is_some();
    cfg.streams.push(StreamDesc {
        flavor: Flavor::Belt,
        mk: mk_stream_seek_noclone::<belt_ctr::BeltCtrCore<C>>,
        mk_at: Some(mk_stream_at_noclone::<belt_ctr::BeltCtrCore<C>>),
        cloneable: wrapper_clone,
    });
    cfg.cores.push(CoreDesc {
        flavor: Flavor::Belt,
        mk: mk_core_seek_noclone::<belt_ctr::BeltCtrCore<C>>,
        cloneable: core_clone,
    });
}
pub fn add_belt_enc<C>(cfg: &mut Cfg)
where
    C: EncCipher + BlockSizeUser<BlockSize = U16>,
{
    cfg.streams.push(StreamDesc {
        flavor: Flavor::Belt,
        mk: mk_stream_seek_noclone_noiv::<belt_ctr::BeltCtrCore<C>>,
        mk_at: None,
        cloneable: false,
    });
    cfg.cores.push(CoreDesc {
        flavor: Flavor::Belt,
        mk: mk_core_seek_noclone_noiv::<belt_ctr::BeltCtrCore<C>>,
        cloneable: false,
    });
}

pub type ST<B, P> = Spy<Toy<B, P>>;

/// `toy!(vec, U8, U3, add_ctr32, add_ctr64)` pushes the configuration for `Spy<Toy<U8,U3>>`.
#[macro_export]
macro_rules! toy {
    ($v:ident, $b:ident, $p:ident $(, $add:ident)*) => {{
        use $crate::re::cipher::typenum::Unsigned;
        let name = format!("toy{}x{}", <$crate::re::cipher::consts::$b as Unsigned>::USIZE, <$crate::re::cipher::consts::$p as Unsigned>::USIZE);
        #[allow(unused_mut)]
        let mut c = $crate::cfgs::full_cfg::<$crate::cfgs::ST<$crate::re::cipher::consts::$b, $crate::re::cipher::consts::$p>, $crate::spy::Toy<$crate::re::cipher::consts::$b, $crate::re::cipher::consts::$p>>(&name, true, false);
        $( $crate::cfgs::$add::<$crate::cfgs::ST<$crate::re::cipher::consts::$b, $crate::re::cipher::consts::$p>>(&mut c); )*
        $v.push(c);
    }};
}

/// encrypt-only toy configuration
#[macro_export]
macro_rules! toy_enc {
    ($v:ident, $b:ident, $p:ident $(, $add:ident)*) => {{
        use $crate::re::cipher::typenum::Unsigned;
        use $crate::spy::{EncOnly, Toy};
        let name = format!("toy{}x{}-enconly", <$crate::re::cipher::consts::$b as Unsigned>::USIZE, <$crate::re::cipher::consts::$p as Unsigned>::USIZE);
        #[allow(unused_mut)]
        let mut c = $crate::cfgs::enc_cfg::<EncOnly<$crate::cfgs::ST<$crate::re::cipher::consts::$b, $crate::re::cipher::consts::$p>>, EncOnly<Toy<$crate::re::cipher::consts::$b, $crate::re::cipher::consts::$p>>>(&name, true, false);
        $( $crate::cfgs::$add::<EncOnly<$crate::cfgs::ST<$crate::re::cipher::consts::$b, $crate::re::cipher::consts::$p>>>(&mut c); )*
        $v.push(c);
    }};
}

/// real cipher, both directions
#[macro_export]
macro_rules! real {
    ($v:ident, $name:expr, $t:ty $(, $add:ident)*) => {{
        #[allow(unused_mut)]
        let mut c = $crate::cfgs::full_cfg::<$crate::spy::Spy<$t>, $t>($name, true, true);
        $( $crate::cfgs::$add::<$crate::spy::Spy<$t>>(&mut c); )*
        $v.push(c);
    }};
}
#[macro_export]
macro_rules! real_enc {
    ($v:ident, $name:expr, $t:ty $(, $add:ident)*) => {{
        #[allow(unused_mut)]
        let mut c = $crate::cfgs::enc_cfg::<$crate::spy::Spy<$t>, $t>($name, true, true);
        $( $crate::cfgs::$add::<$crate::spy::Spy<$t>>(&mut c); )*
        $v.push(c);
    }};
}
