//! Global allocator that can photograph ONE watched heap block at the moment it is handed
//! back to the allocator. This is the only vantage point from which "the object's memory after
//! drop" can be observed the way an attacker's later allocation would see it: a monitor that
//! reads the storage between `drop_in_place` and `dealloc` keeps the wiping stores alive, while
//! the ordinary `drop(Box<T>)` sequence lets the optimiser delete every non-volatile store to
//! memory that is freed right afterwards. Everything else is passed straight to `System`.

use std::alloc::{GlobalAlloc, Layout, System};
use std::cell::{Cell, UnsafeCell};

pub const CAP: usize = 32 * 1024;

thread_local! {
    // const-initialised, no destructors: safe to touch from inside the allocator
    static WATCH: Cell<(usize, usize)> = const { Cell::new((0, 0)) };
    static GOT: Cell<usize> = const { Cell::new(usize::MAX) };
    static BUF: UnsafeCell<[u8; CAP]> = const { UnsafeCell::new([0u8; CAP]) };
}

pub struct SpyAlloc;

unsafe impl GlobalAlloc for SpyAlloc {
    #[inline]
    unsafe fn alloc(&self, l: Layout) -> *mut u8 {
        unsafe { System.alloc(l) }
    }
    #[inline]
    unsafe fn alloc_zeroed(&self, l: Layout) -> *mut u8 {
        unsafe { System.alloc_zeroed(l) }
    }
    #[inline]
    unsafe fn realloc(&self, p: *mut u8, l: Layout, n: usize) -> *mut u8 {
        unsafe { System.realloc(p, l, n) }
    }
    #[inline]
    unsafe fn dealloc(&self, p: *mut u8, l: Layout) {
        let _ = WATCH.try_with(|w| {
            let (addr, size) = w.get();
            if addr != 0 && addr == p as usize {
                w.set((0, 0));
                let n = size.min(l.size()).min(CAP);
                let _ = BUF.try_with(|b| {
                    // SAFETY: p..p+n is inside the block being released (still allocated here);
                    // BUF is thread-local and not borrowed anywhere else during this call.
                    unsafe { core::ptr::copy_nonoverlapping(p as *const u8, (*b.get()).as_mut_ptr(), n) };
                    let _ = GOT.try_with(|g| g.set(n));
                });
            }
        });
        unsafe { System.dealloc(p, l) }
    }
}

/// watch the block starting at `addr` (`size` bytes of it) on this thread
pub fn arm(addr: usize, size: usize) {
    GOT.with(|g| g.set(usize::MAX));
    WATCH.with(|w| w.set((addr, size)));
}

/// the bytes the watched block held when it was released (None: it was not released)
pub fn take() -> Option<Vec<u8>> {
    WATCH.with(|w| w.set((0, 0)));
    let n = GOT.with(|g| g.replace(usize::MAX));
    if n == usize::MAX {
        return None;
    }
    // SAFETY (native only, never under Miri): volatile byte reads of the snapshot, which may
    // contain copies of padding bytes
    Some(BUF.with(|b| (0..n).map(|i| unsafe { core::ptr::read_volatile((b.get() as *const u8).add(i)) }).collect()))
}
