//! Harness-owned block ciphers.
//!
//! * `Toy<BS, PAR>`: a keyed bijection on `BS` bytes (any `U1..U255`), declaring any
//!   parallel width `PAR`. The multi-block entry point goes through a separate,
//!   deliberately batch-shaped code path (blocks processed last-to-first).
//! * `Spy<C>`: wraps any cipher and appends one event per block processed to a
//!   thread-local log (direction, call kind, input block, output block), by wrapping
//!   the *backend* the wrapped cipher hands to the mode. So real ciphers are spied too.
//! * `EncOnly<C>`: exposes only the encryption direction.

use cipher::{
    AlgorithmName, Block, BlockCipherDecBackend, BlockCipherDecClosure, BlockCipherDecrypt,
    BlockCipherEncBackend, BlockCipherEncClosure, BlockCipherEncrypt, BlockSizeUser, InOut,
    InOutBuf, Key, KeyInit, KeySizeUser, ParBlocks, ParBlocksSizeUser,
    array::ArraySize,
    consts::U16,
    crypto_common::BlockSizes,
    typenum::Unsigned,
};
use core::fmt;
use core::marker::PhantomData;
use std::cell::RefCell;

// ------------------------------------------------------------------ event log

#[derive(Clone, Copy, Debug, PartialEq, Eq)]
pub enum Dir {
    E,
    D,
}

#[derive(Clone, Copy, Debug, PartialEq, Eq)]
pub enum Kind {
    Single,
    Par,
    Tail,
}

#[derive(Clone, Debug, PartialEq, Eq)]
pub struct Ev {
    pub dir: Dir,
    pub kind: Kind,
    pub width: u16,
    pub inp: Vec<u8>,
    pub out: Vec<u8>,
}

#[derive(Default)]
struct Log {
    on: bool,
    evs: Vec<Ev>,
}

thread_local! {
    static LOG: RefCell<Log> = RefCell::new(Log::default());
}

/// Start a fresh recording on this thread.
pub fn log_start() {
    LOG.with(|l| {
        let mut l = l.borrow_mut();
        l.on = true;
        l.evs.clear();
    });
}

/// Take everything recorded since the last `log_start`/`log_take`; keeps recording.
pub fn log_take() -> Vec<Ev> {
    LOG.with(|l| std::mem::take(&mut l.borrow_mut().evs))
}

pub fn log_stop() -> Vec<Ev> {
    LOG.with(|l| {
        let mut l = l.borrow_mut();
        l.on = false;
        std::mem::take(&mut l.evs)
    })
}

pub fn log_len() -> usize {
    LOG.with(|l| l.borrow().evs.len())
}

#[inline]
fn push(dir: Dir, kind: Kind, width: usize, inp: &[u8], out: &[u8]) {
    LOG.with(|l| {
        let mut l = l.borrow_mut();
        if l.on {
            l.evs.push(Ev {
                dir,
                kind,
                width: width as u16,
                inp: inp.to_vec(),
                out: out.to_vec(),
            });
        }
    });
}

// ------------------------------------------------------------------ Toy cipher

/// Keyed bijection on `BS` bytes. All fields are plain bytes (matters for C17's scan).
#[derive(Clone)]
pub struct Toy<BS: BlockSizes, PAR: ArraySize> {
    sbox: [u8; 256],
    inv: [u8; 256],
    t1: [u8; 256],
    t2: [u8; 256],
    rk: [u8; 64],
    _pd: PhantomData<(BS, PAR)>,
}

const ROUNDS: usize = 4;

impl<BS: BlockSizes, PAR: ArraySize> Toy<BS, PAR> {
    pub fn from_key(key: &[u8; 16]) -> Self {
        // key schedule: a small PRNG seeded by the key
        let mut st = 0x243F_6A88_85A3_08D3u64;
        for (i, k) in key.iter().enumerate() {
            st = st.rotate_left(9) ^ ((*k as u64) << (8 * (i % 8))) ^ (i as u64).wrapping_mul(0x9E37_79B9);
            st = st.wrapping_mul(0x2545_F491_4F6C_DD1D);
        }
        let mut next = move || {
            st ^= st << 13;
            st ^= st >> 7;
            st ^= st << 17;
            (st >> 24) as u8 ^ (st >> 40) as u8
        };
        let mut sbox = [0u8; 256];
        for (i, s) in sbox.iter_mut().enumerate() {
            *s = i as u8;
        }
        for i in (1..256usize).rev() {
            let j = ((next() as usize) << 8 | next() as usize) % (i + 1);
            sbox.swap(i, j);
        }
        let mut inv = [0u8; 256];
        for i in 0..256 {
            inv[sbox[i] as usize] = i as u8;
        }
        let mut t1 = [0u8; 256];
        let mut t2 = [0u8; 256];
        for i in 0..256 {
            t1[i] = next();
            t2[i] = next();
        }
        let mut rk = [0u8; 64];
        for r in rk.iter_mut() {
            *r = next();
        }
        Toy {
            sbox,
            inv,
            t1,
            t2,
            rk,
            _pd: PhantomData,
        }
    }

    #[inline]
    pub fn enc_raw(&self, x: &mut [u8]) {
        let n = x.len();
        for r in 0..ROUNDS {
            for i in 0..n {
                x[i] = self.sbox[(x[i] ^ self.rk[(i.wrapping_mul(7) + r * 13) % 64]) as usize];
            }
            for i in 1..n {
                x[i] ^= self.t1[x[i - 1] as usize];
            }
            for i in (0..n.saturating_sub(1)).rev() {
                x[i] ^= self.t2[x[i + 1] as usize];
            }
        }
    }

    /// Independent implementation of the inverse.
    #[inline]
    pub fn dec_raw(&self, x: &mut [u8]) {
        let n = x.len();
        for r in (0..ROUNDS).rev() {
            for i in 0..n.saturating_sub(1) {
                x[i] ^= self.t2[x[i + 1] as usize];
            }
            for i in (1..n).rev() {
                x[i] ^= self.t1[x[i - 1] as usize];
            }
            for i in 0..n {
                x[i] = self.inv[x[i] as usize] ^ self.rk[(i.wrapping_mul(7) + r * 13) % 64];
            }
        }
    }
}

impl<BS: BlockSizes, PAR: ArraySize> BlockSizeUser for Toy<BS, PAR> {
    type BlockSize = BS;
}
/// the backend a `Toy` hands to the mode
pub struct ToyBk<'a, BS: BlockSizes, PAR: ArraySize>(&'a Toy<BS, PAR>);
impl<BS: BlockSizes, PAR: ArraySize> BlockSizeUser for ToyBk<'_, BS, PAR> {
    type BlockSize = BS;
}
impl<BS: BlockSizes, PAR: ArraySize> ParBlocksSizeUser for ToyBk<'_, BS, PAR> {
    type ParBlocksSize = PAR;
}
impl<BS: BlockSizes, PAR: ArraySize> KeySizeUser for Toy<BS, PAR> {
    type KeySize = U16;
}
impl<BS: BlockSizes, PAR: ArraySize> KeyInit for Toy<BS, PAR> {
    fn new(key: &Key<Self>) -> Self {
        let k: [u8; 16] = key.as_slice().try_into().unwrap();
        Self::from_key(&k)
    }
}
impl<BS: BlockSizes, PAR: ArraySize> AlgorithmName for Toy<BS, PAR> {
    fn write_alg_name(f: &mut fmt::Formatter<'_>) -> fmt::Result {
        write!(f, "Toy{}x{}", BS::USIZE, PAR::USIZE)
    }
}
impl<BS: BlockSizes, PAR: ArraySize> fmt::Debug for Toy<BS, PAR> {
    fn fmt(&self, f: &mut fmt::Formatter<'_>) -> fmt::Result {
        write!(f, "Toy{}x{} {{ ... }}", BS::USIZE, PAR::USIZE)
    }
}

impl<BS: BlockSizes, PAR: ArraySize> BlockCipherEncBackend for ToyBk<'_, BS, PAR> {
    #[inline]
    fn encrypt_block(&self, mut block: InOut<'_, '_, Block<Self>>) {
        let mut t = block.clone_in();
        self.0.enc_raw(&mut t);
        *block.get_out() = t;
    }
    // batch-shaped path: read all inputs first, process last-to-first, then write
    #[inline]
    fn encrypt_par_blocks(&self, mut blocks: InOut<'_, '_, ParBlocks<Self>>) {
        let mut t = blocks.clone_in();
        for i in (0..PAR::USIZE).rev() {
            self.0.enc_raw(&mut t[i]);
        }
        *blocks.get_out() = t;
    }
}
impl<BS: BlockSizes, PAR: ArraySize> BlockCipherDecBackend for ToyBk<'_, BS, PAR> {
    #[inline]
    fn decrypt_block(&self, mut block: InOut<'_, '_, Block<Self>>) {
        let mut t = block.clone_in();
        self.0.dec_raw(&mut t);
        *block.get_out() = t;
    }
    #[inline]
    fn decrypt_par_blocks(&self, mut blocks: InOut<'_, '_, ParBlocks<Self>>) {
        let mut t = blocks.clone_in();
        for i in (0..PAR::USIZE).rev() {
            self.0.dec_raw(&mut t[i]);
        }
        *blocks.get_out() = t;
    }
}
impl<BS: BlockSizes, PAR: ArraySize> BlockCipherEncrypt for Toy<BS, PAR> {
    #[inline]
    fn encrypt_with_backend(&self, f: impl BlockCipherEncClosure<BlockSize = BS>) {
        f.call(&ToyBk(self))
    }
}
impl<BS: BlockSizes, PAR: ArraySize> BlockCipherDecrypt for Toy<BS, PAR> {
    #[inline]
    fn decrypt_with_backend(&self, f: impl BlockCipherDecClosure<BlockSize = BS>) {
        f.call(&ToyBk(self))
    }
}

// ------------------------------------------------------------------ Spy wrapper

#[derive(Clone)]
pub struct Spy<C>(pub C);

impl<C: BlockSizeUser> BlockSizeUser for Spy<C> {
    type BlockSize = C::BlockSize;
}
impl<C: KeySizeUser> KeySizeUser for Spy<C> {
    type KeySize = C::KeySize;
}
impl<C: KeyInit> KeyInit for Spy<C> {
    fn new(key: &Key<Self>) -> Self {
        Spy(C::new(key))
    }
}
impl<C: AlgorithmName> AlgorithmName for Spy<C> {
    fn write_alg_name(f: &mut fmt::Formatter<'_>) -> fmt::Result {
        C::write_alg_name(f)
    }
}
impl<C: AlgorithmName> fmt::Debug for Spy<C> {
    fn fmt(&self, f: &mut fmt::Formatter<'_>) -> fmt::Result {
        C::write_alg_name(f)?;
        f.write_str(" { ... }")
    }
}

struct LogBackend<'a, B>(&'a B);

impl<B: BlockSizeUser> BlockSizeUser for LogBackend<'_, B> {
    type BlockSize = B::BlockSize;
}
impl<B: ParBlocksSizeUser> ParBlocksSizeUser for LogBackend<'_, B> {
    type ParBlocksSize = B::ParBlocksSize;
}

impl<B: BlockCipherEncBackend> BlockCipherEncBackend for LogBackend<'_, B> {
    #[inline]
    fn encrypt_block(&self, mut block: InOut<'_, '_, Block<Self>>) {
        let inp = block.clone_in();
        self.0.encrypt_block(block.reborrow());
        push(Dir::E, Kind::Single, 1, &inp, block.get_out());
    }
    #[inline]
    fn encrypt_par_blocks(&self, mut blocks: InOut<'_, '_, ParBlocks<Self>>) {
        let inp = blocks.clone_in();
        self.0.encrypt_par_blocks(blocks.reborrow());
        let out = blocks.get_out();
        let w = B::ParBlocksSize::USIZE;
        for i in 0..w {
            push(Dir::E, Kind::Par, w, &inp[i], &out[i]);
        }
    }
    #[inline]
    fn encrypt_tail_blocks(&self, mut blocks: InOutBuf<'_, '_, Block<Self>>) {
        // same contract as the provided method: a tail is shorter than one batch
        assert!(blocks.len() < B::ParBlocksSize::USIZE, "spy: tail of {} blocks handed to a backend of width {}", blocks.len(), B::ParBlocksSize::USIZE);
        let inp: Vec<Block<Self>> = blocks.get_in().to_vec();
        self.0.encrypt_tail_blocks(blocks.reborrow());
        let out = blocks.get_out();
        let w = B::ParBlocksSize::USIZE;
        for i in 0..inp.len() {
            push(Dir::E, Kind::Tail, w, &inp[i], &out[i]);
        }
    }
}

impl<B: BlockCipherDecBackend> BlockCipherDecBackend for LogBackend<'_, B> {
    #[inline]
    fn decrypt_block(&self, mut block: InOut<'_, '_, Block<Self>>) {
        let inp = block.clone_in();
        self.0.decrypt_block(block.reborrow());
        push(Dir::D, Kind::Single, 1, &inp, block.get_out());
    }
    #[inline]
    fn decrypt_par_blocks(&self, mut blocks: InOut<'_, '_, ParBlocks<Self>>) {
        let inp = blocks.clone_in();
        self.0.decrypt_par_blocks(blocks.reborrow());
        let out = blocks.get_out();
        let w = B::ParBlocksSize::USIZE;
        for i in 0..w {
            push(Dir::D, Kind::Par, w, &inp[i], &out[i]);
        }
    }
    #[inline]
    fn decrypt_tail_blocks(&self, mut blocks: InOutBuf<'_, '_, Block<Self>>) {
        assert!(blocks.len() < B::ParBlocksSize::USIZE, "spy: tail of {} blocks handed to a backend of width {}", blocks.len(), B::ParBlocksSize::USIZE);
        let inp: Vec<Block<Self>> = blocks.get_in().to_vec();
        self.0.decrypt_tail_blocks(blocks.reborrow());
        let out = blocks.get_out();
        let w = B::ParBlocksSize::USIZE;
        for i in 0..inp.len() {
            push(Dir::D, Kind::Tail, w, &inp[i], &out[i]);
        }
    }
}

struct EncClosure<F>(F);
impl<F: BlockSizeUser> BlockSizeUser for EncClosure<F> {
    type BlockSize = F::BlockSize;
}
impl<F: BlockCipherEncClosure> BlockCipherEncClosure for EncClosure<F> {
    #[inline]
    fn call<B: BlockCipherEncBackend<BlockSize = Self::BlockSize>>(self, backend: &B) {
        self.0.call(&LogBackend(backend))
    }
}
struct DecClosure<F>(F);
impl<F: BlockSizeUser> BlockSizeUser for DecClosure<F> {
    type BlockSize = F::BlockSize;
}
impl<F: BlockCipherDecClosure> BlockCipherDecClosure for DecClosure<F> {
    #[inline]
    fn call<B: BlockCipherDecBackend<BlockSize = Self::BlockSize>>(self, backend: &B) {
        self.0.call(&LogBackend(backend))
    }
}

impl<C: BlockCipherEncrypt> BlockCipherEncrypt for Spy<C> {
    #[inline]
    fn encrypt_with_backend(&self, f: impl BlockCipherEncClosure<BlockSize = Self::BlockSize>) {
        self.0.encrypt_with_backend(EncClosure(f))
    }
}
impl<C: BlockCipherDecrypt> BlockCipherDecrypt for Spy<C> {
    #[inline]
    fn decrypt_with_backend(&self, f: impl BlockCipherDecClosure<BlockSize = Self::BlockSize>) {
        self.0.decrypt_with_backend(DecClosure(f))
    }
}

// ------------------------------------------------------------------ EncOnly

/// Exposes only the encryption direction of the wrapped cipher.
#[derive(Clone)]
pub struct EncOnly<C>(pub C);

impl<C: BlockSizeUser> BlockSizeUser for EncOnly<C> {
    type BlockSize = C::BlockSize;
}
impl<C: KeySizeUser> KeySizeUser for EncOnly<C> {
    type KeySize = C::KeySize;
}
impl<C: KeyInit> KeyInit for EncOnly<C> {
    fn new(key: &Key<Self>) -> Self {
        EncOnly(C::new(key))
    }
}
impl<C: AlgorithmName> AlgorithmName for EncOnly<C> {
    fn write_alg_name(f: &mut fmt::Formatter<'_>) -> fmt::Result {
        C::write_alg_name(f)?;
        f.write_str("Enc")
    }
}
impl<C: BlockCipherEncrypt> BlockCipherEncrypt for EncOnly<C> {
    #[inline]
    fn encrypt_with_backend(&self, f: impl BlockCipherEncClosure<BlockSize = Self::BlockSize>) {
        self.0.encrypt_with_backend(f)
    }
}

// ------------------------------------------------------------------ object-safe reference cipher

/// What the definitional models see: black-box E and D on byte slices. Built on an
/// *unspied* instance, scalar calls only.
pub trait RefCipher: Send + Sync {
    fn bs(&self) -> usize;
    fn e(&self, b: &mut [u8]);
    fn d(&self, b: &mut [u8]);
    fn has_d(&self) -> bool;
}

pub struct RefFull<C>(pub C);
impl<C> RefCipher for RefFull<C>
where
    C: BlockCipherEncrypt + BlockCipherDecrypt + Send + Sync,
{
    fn bs(&self) -> usize {
        C::BlockSize::USIZE
    }
    fn e(&self, b: &mut [u8]) {
        let blk: &mut Block<C> = b.try_into().expect("block len");
        self.0.encrypt_block(blk);
    }
    fn d(&self, b: &mut [u8]) {
        let blk: &mut Block<C> = b.try_into().expect("block len");
        self.0.decrypt_block(blk);
    }
    fn has_d(&self) -> bool {
        true
    }
}

pub struct RefEnc<C>(pub C);
impl<C> RefCipher for RefEnc<C>
where
    C: BlockCipherEncrypt + Send + Sync,
{
    fn bs(&self) -> usize {
        C::BlockSize::USIZE
    }
    fn e(&self, b: &mut [u8]) {
        let blk: &mut Block<C> = b.try_into().expect("block len");
        self.0.encrypt_block(blk);
    }
    fn d(&self, _b: &mut [u8]) {
        panic!("harness: D requested on an encrypt-only reference cipher");
    }
    fn has_d(&self) -> bool {
        false
    }
}

/// Self-test of the toy permutation: D∘E = E∘D = id, E is not the identity, and the
/// batch path equals the scalar path. Returns Err(description) on failure (a harness
/// error, never a VIOLATION).
pub fn self_test() -> Result<usize, String> {
    use cipher::consts::*;
    fn one<BS: BlockSizes, PAR: ArraySize>(n: &mut usize) -> Result<(), String> {
        for k in 0..4u8 {
            let key = [k.wrapping_mul(37).wrapping_add(1); 16];
            let c = Toy::<BS, PAR>::from_key(&key);
            let mut moved = 0;
            for t in 0..16u32 {
                let mut x = vec![0u8; BS::USIZE];
                for (i, b) in x.iter_mut().enumerate() {
                    *b = (t as u8).wrapping_mul(29) ^ (i as u8).wrapping_mul(t as u8 | 1);
                }
                let orig = x.clone();
                c.enc_raw(&mut x);
                if x != orig {
                    moved += 1;
                }
                let ct = x.clone();
                c.dec_raw(&mut x);
                if x != orig {
                    return Err(format!("toy {}x{}: D(E(x)) != x", BS::USIZE, PAR::USIZE));
                }
                c.dec_raw(&mut x);
                c.enc_raw(&mut x);
                if x != orig {
                    return Err(format!("toy {}x{}: E(D(x)) != x", BS::USIZE, PAR::USIZE));
                }
                // trait path, scalar
                let mut b = Block::<Toy<BS, PAR>>::default();
                b.copy_from_slice(&orig);
                c.encrypt_block(&mut b);
                if b.as_slice() != &ct[..] {
                    return Err("toy: trait path != raw".into());
                }
                *n += 1;
            }
            if moved < 12 {
                return Err(format!("toy {}x{}: E is (nearly) the identity", BS::USIZE, PAR::USIZE));
            }
            // batch path equals scalar path
            let mut blocks = vec![Block::<Toy<BS, PAR>>::default(); 2 * PAR::USIZE + 1];
            for (j, b) in blocks.iter_mut().enumerate() {
                for (i, x) in b.iter_mut().enumerate() {
                    *x = (i as u8).wrapping_add(j as u8 * 17) ^ k;
                }
            }
            let mut scalar = blocks.clone();
            for b in scalar.iter_mut() {
                c.enc_raw(b);
            }
            let mut batch = blocks.clone();
            c.encrypt_blocks(&mut batch);
            if batch != scalar {
                return Err(format!("toy {}x{}: batch != scalar (enc)", BS::USIZE, PAR::USIZE));
            }
            c.decrypt_blocks(&mut batch);
            if batch != blocks {
                return Err(format!("toy {}x{}: batch dec", BS::USIZE, PAR::USIZE));
            }
        }
        Ok(())
    }
    let mut n = 0;
    if cfg!(miri) {
        // the interpreter is ~4 orders of magnitude slower: a small self-test only
        one::<U3, U2>(&mut n)?;
        one::<U8, U3>(&mut n)?;
        return Ok(n);
    }
    one::<U1, U1>(&mut n)?;
    one::<U2, U3>(&mut n)?;
    one::<U3, U2>(&mut n)?;
    one::<U8, U5>(&mut n)?;
    one::<U16, U4>(&mut n)?;
    one::<U17, U3>(&mut n)?;
    one::<U255, U2>(&mut n)?;
    Ok(n)
}
