//! bmv-core: spy ciphers, object-safe adapters over the public mode types, utilities.
pub mod alloc_spy;
pub mod cfgs;
pub mod spy;
pub mod subj;
pub mod util;

/// re-exports used by the instantiation crates
pub mod re {
    pub use aes;
    pub use cbc;
    pub use cfb8;
    pub use ige;
    pub use ofb;
    pub use pcbc;
    pub use cfb_mode;
    pub use ctr;
    pub use cts;
    pub use belt_block;
    pub use belt_ctr;
    pub use cipher;
    pub use kuznyechik;
    pub use magma;
}

/// every harness binary allocates through the spy allocator (a pass-through to `System` that can
/// photograph one watched block at the moment it is released; see alloc_spy.rs)
#[global_allocator]
static GLOBAL: alloc_spy::SpyAlloc = alloc_spy::SpyAlloc;
