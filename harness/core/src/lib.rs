//! bmv-core: spy ciphers, object-safe adapters over the public mode types, utilities.
pub mod cfgs;
pub mod spy;
pub mod subj;
pub mod util;

/// re-exports used by the instantiation crates
pub mod re {
    pub use aes;
    pub use cfb_mode;
    pub use ctr;
    pub use cts;
    pub use belt_block;
    pub use belt_ctr;
    pub use cipher;
    pub use kuznyechik;
    pub use magma;
}
